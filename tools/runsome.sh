#!/bin/bash
# usage: tools/runsome.sh <tier> <PROP>...   - runs the named checks (like runall.sh) and prints one line each
cd "$(cd "$(dirname "${BASH_SOURCE[0]}")/.." && pwd)"
tier="$1"; shift
for p in "$@"; do
  out=$(timeout 3300 ./check $p --tier $tier 2>&1); rc=$?
  echo "$out" | grep -E "^\[|^VIOLATION|^HARNESS|^KNOWN|^  oracle" | cut -c1-260
  [ $rc -ne 0 ] && echo "   ^^^ exit=$rc"
done
exit 0
