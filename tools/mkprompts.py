import json,subprocess,sys,os
props=sys.argv[2:]; rnd=sys.argv[1]
for p in props:
    t=p+rnd
    subprocess.run(["git","-C","/repo","worktree","add","-q","--detach",f"/tmp/wt_{t}","HEAD"],check=True)
    subprocess.run(["mkdir","-p",f"/tmp/out_{t}"])
    prev=[]
    for r in "abcdefg":
        mp=f"/verif/seeded/{p}{r}/meta.json"
        if os.path.exists(mp): prev.append(json.load(open(mp))["summary"])
    s=open('/verif/tools/agent_prompt_template.txt').read()
    s=s.replace('WORKTREE',f'/tmp/wt_{t}').replace('OUTDIR',f'/tmp/out_{t}').replace('PROPTEXT',open(f'/tmp/prop_{p}.txt').read())
    s+="\n\nNote: earlier seeded changes for this property already did the following, so pick a DIFFERENT site and mechanism (a different function or class, a different kind of mistake; prefer a less obvious API route, an interaction between two features, or state carried across several operations):\n"+"\n".join(f"  - {x}" for x in prev)+"\n"
    open(f'/tmp/prompt_{t}.txt','w').write(s)
print("ok")
