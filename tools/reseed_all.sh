#!/bin/bash
# regression: every filed seeded change must still apply to /repo's HEAD and be reported by its property's quick check
cd /verif
for d in seeded/*/; do
  id=$(basename $d); prop=$(/venv/bin/python -c "import json;print(json.load(open('$d/meta.json'))['breaks_property'])")
  if ! git -C /repo apply --check "$PWD/$d/patch.diff" 2>/dev/null; then echo "$id $prop PATCH-DOES-NOT-APPLY"; continue; fi
  out=$(tools/try_seed.sh "$PWD/$d/patch.diff" $prop 2>&1); rc=$?
  orc=$(echo "$out" | grep -oE "oracle=[a-z_A-Z0-9]+" | sort -u | tr '\n' ' ')
  echo "$id $prop exit=$rc $orc"
done
