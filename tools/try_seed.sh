#!/bin/bash
# usage: tools/try_seed.sh <patch.diff> <PROP> [extra ./check args]   — runs a check against a scratch copy of /repo with the patch applied
patch="$1"; prop="$2"; shift 2
scratch=$(mktemp -d /var/tmp/inferno-seed-XXXXXX)
rsync -a --exclude .git --exclude __pycache__ /repo/ "$scratch/"
( cd "$scratch" && patch -p1 -s < "$patch" ) || { echo "PATCH FAILED"; rm -rf "$scratch"; exit 3; }
VERIF_REPO="$scratch" VERIF_EVIDENCE_DIR="$scratch/_ev" /verif/check "$prop" "$@"
rc=$?
rm -rf "$scratch"
echo "exit=$rc"
exit $rc
