#!/venv/bin/python
"""Refreshes the generated tables of DESIGN.md (between <!-- BEGIN:x --> / <!-- END:x --> markers):
seeded changes (from seeded/*/meta.json) and measured coverage (from evidence/*.json = the quick commands, and evidence_thorough/*.json = copies of what the thorough commands wrote)."""
import glob, json, os, re
V = os.path.dirname(os.path.dirname(os.path.abspath(__file__)))


def seeded():
    rows = ["| id | property | what the change is (see seeded/<id>/notes.md) | detected by | oracle(s) | note |", "|---|---|---|---|---|---|"]
    for d in sorted(glob.glob(os.path.join(V, "seeded", "*"))):
        mp = os.path.join(d, "meta.json")
        if not os.path.exists(mp):
            continue
        m = json.load(open(mp))
        notes = ""
        np_ = os.path.join(d, "notes.md")
        summary = m.get("summary", "")
        if not summary and os.path.exists(np_):
            txt = open(np_).read()
            # first non-heading paragraph line
            for line in txt.splitlines():
                line = line.strip()
                if line and not line.startswith("#") and len(line) > 40:
                    summary = line
                    break
        summary = re.sub(r"\s+", " ", summary)[:220].replace("|", "/")
        cr = m.get("check_result", {})
        det = ("./check " + m["breaks_property"]) if cr.get("detected") else "**MISSED**"
        orc = ", ".join(o.replace("oracle=", "") for o in cr.get("oracles", [])[:3])
        rows.append(f"| {m['id']} | {m['breaks_property']} | {summary} | {det} | {orc} | {m.get('history', '')[:160]} |")
    total = len(rows) - 2
    missed_first = sum(1 for r in rows[2:] if "MISSED" in r)
    still = sum(1 for r in rows[2:] if "**MISSED**" in r)
    head = (f"{total} seeded changes are filed; {total - still} are reported by their property's quick check"
            f"{'' if not still else f' ({still} still missed)'}; {missed_first} of them were missed by the first version of the check and led to a stronger check "
            "(see the note column and §13's text).\n\n")
    return head + "\n".join(rows)


def coverage():
    rows = ["| property | tier | runs | distinct non-trivial | sim steps | faults fired | undecided | known hits | runs/hour | wall s |", "|---|---|---|---|---|---|---|---|---|---|"]
    for f in sorted(glob.glob(os.path.join(V, "evidence", "C*.json")) + glob.glob(os.path.join(V, "evidence_thorough", "C*.json")),
                    key=lambda x: (os.path.basename(x), x)):
        e = json.load(open(f))
        c = e["coverage"]
        rows.append(f"| {e['property_id']} | {e['tier']} | {c['evaluations']} | {c['distinct_nontrivial']} | {c['sim_steps']} | {sum(c['faults_fired'].values())} | {c['undecided']} | "
                    f"{sum(c['known_findings_hit'].values())} | {c['runs_per_hour']} | {e['wall_s']} |")
    return "\n".join(rows)


p = os.path.join(V, "DESIGN.md")
s = open(p).read()
for name, fn in (("seeded", seeded), ("coverage", coverage)):
    b, e = f"<!-- BEGIN:{name} -->", f"<!-- END:{name} -->"
    if b in s and e in s:
        s = s[: s.index(b) + len(b)] + "\n" + fn() + "\n" + s[s.index(e):]
open(p, "w").write(s)
print("tables refreshed")
