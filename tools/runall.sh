#!/bin/bash
# runs every registered check (quick tier by default) and prints one line each
cd "$(cd "$(dirname "${BASH_SOURCE[0]}")/.." && pwd)"
tier="${1:-quick}"
for p in $(/venv/bin/python -c "import sys; sys.path.insert(0,'/verif'); from sim.registry import PROPS; print(' '.join(sorted(PROPS)))"); do
  out=$(timeout 3300 ./check $p --tier $tier 2>&1); rc=$?
  echo "$out" | grep -E "^\[|^VIOLATION|^HARNESS|^KNOWN" | cut -c1-220
  [ $rc -ne 0 ] && echo "   ^^^ exit=$rc"
done
exit 0
