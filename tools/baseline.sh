#!/bin/bash
# Runs the repository's own suite (guard off). Failing tests are re-run alone 3x to tell flaky
# tests (random data + exact/1e-6 comparisons exist in the suite) from real regressions.
cd /repo || exit 2
out=$(timeout 1200 /venv/bin/python -m pytest -q -p no:cacheprovider --timeout=900 2>&1)
echo "$out" | grep -E "passed|failed|error" | tail -2
fails=$(echo "$out" | grep -E "^FAILED" | sed 's/^FAILED //; s/ - .*//')
rc=0
for t in $fails; do
  ok=0
  for i in 1 2 3; do
    if timeout 600 /venv/bin/python -m pytest -q -p no:cacheprovider "$t" >/dev/null 2>&1; then ok=$((ok+1)); fi
  done
  echo "RERUN $t passed $ok/3"
  [ "$ok" -lt 1 ] && rc=1
done
exit $rc
