#!/bin/bash
# usage: tools/confirm_seed.sh <tag e.g. C01a> <PROP> [check runs]
# Confirms an independently written seeded change: (1) demo fails with the patch and passes without,
# (2) the repository's suite passes with the patch (failures re-run alone 3x to rule out the known flaky tests),
# (3) runs the property's check against the patched scratch tree; then files it under /verif/seeded/<tag>/.
tag="$1"; prop="$2"; runs="${3:-}"
wt=/tmp/wt_$tag; out=/tmp/out_$tag
[ -f "$out/patch.diff" ] || { echo "no patch"; exit 3; }
scratch=$(mktemp -d /var/tmp/inferno-conf-XXXXXX)
rsync -a --exclude .git --exclude __pycache__ /repo/ "$scratch/"
PYTHONPATH="$scratch" timeout 600 /venv/bin/python "$out/demo.py" >/dev/null 2>&1; d0=$?
( cd "$scratch" && patch -p1 -s < "$out/patch.diff" ) || { echo "PATCH FAILED"; rm -rf "$scratch"; exit 3; }
PYTHONPATH="$scratch" timeout 600 /venv/bin/python "$out/demo.py" >/dev/null 2>&1; d1=$?
echo "demo: original exit=$d0 patched exit=$d1"
cd "$scratch"
o=$(timeout 1500 /venv/bin/python -m pytest -q -p no:cacheprovider --timeout=900 2>&1)
summary=$(echo "$o" | grep -E "passed|failed" | tail -1)
fails=$(echo "$o" | grep -E "^FAILED" | sed 's/^FAILED //; s/ - .*//')
suite_ok=1; rer=""
for t in $fails; do
  ok=0; for i in 1 2 3; do timeout 600 /venv/bin/python -m pytest -q -p no:cacheprovider "$t" >/dev/null 2>&1 && ok=$((ok+1)); done
  rer="$rer $t:$ok/3"; [ "$ok" -lt 1 ] && suite_ok=0
done
echo "suite with patch: $summary $rer (ok=$suite_ok)"
cd /verif
chk=$(VERIF_REPO="$scratch" VERIF_EVIDENCE_DIR="$scratch/_ev" /verif/check "$prop" ${runs:+--runs $runs} 2>&1)
crc=$?
echo "$chk" | grep -E "^VIOLATION|oracle=|^\[" | head -8
oracles=$(echo "$chk" | grep -oE "oracle=[a-z_A-Z0-9]+" | sort -u | tr '\n' ' ')
rm -rf "$scratch"
if [ "$d0" = 0 ] && [ "$d1" != 0 ] && [ "$suite_ok" = 1 ]; then
  mkdir -p /verif/seeded/$tag
  cp "$out/patch.diff" "$out/demo.py" /verif/seeded/$tag/
  [ -f "$out/notes.md" ] && cp "$out/notes.md" /verif/seeded/$tag/notes.md
  /venv/bin/python - "$tag" "$prop" "$d0" "$d1" "$summary" "$rer" "$crc" "$oracles" <<'PY'
import json, sys, re
tag, prop, d0, d1, summary, rer, crc, oracles = sys.argv[1:9]
notes = open(f"/verif/seeded/{tag}/notes.md").read() if __import__("os").path.exists(f"/verif/seeded/{tag}/notes.md") else ""
meta = {
  "id": tag, "breaks_property": prop,
  "needs_to_manifest": "see notes.md (written by the independent sub-agent that produced the change)",
  "confirmed": {
     "demo_exit_original": int(d0), "demo_exit_patched": int(d1),
     "suite_with_patch": summary.strip(), "flaky_reruns": rer.strip(),
     "commands": ["PYTHONPATH=<scratch> /venv/bin/python demo.py (before/after patch -p1 < patch.diff)",
                  "cd <scratch> && /venv/bin/python -m pytest -q -p no:cacheprovider --timeout=900",
                  f"VERIF_REPO=<scratch> ./check {prop}"]},
  "check_result": {"exit": int(crc), "detected": int(crc) == 1, "oracles": oracles.split()},
}
json.dump(meta, open(f"/verif/seeded/{tag}/meta.json", "w"), indent=1)
print("filed", tag, "detected" if int(crc) == 1 else "MISSED")
PY
else
  echo "NOT CONFIRMED (demo/suite) — not filed"
fi
