#!/venv/bin/python
"""Writes /verif/MANIFEST.json from sim/registry.py (+ sim/manifest_text.py)."""
import json, os, sys
V = os.path.dirname(os.path.dirname(os.path.abspath(__file__)))
sys.path.insert(0, V)
from sim.registry import PROPS
from sim.manifest_text import TEXT, NOT_APPLICABLE, NOTES

checks = []
for pid in sorted(PROPS):
    spec, t = PROPS[pid], TEXT[pid]
    checks.append({
        "property_id": pid,
        "quick_cmd": f"timeout 900 ./check {pid} --tier quick",
        "thorough_cmd": f"timeout 3300 ./check {pid} --tier thorough",
        "evidence_file": f"/verif/evidence/{pid}.json",
        "replay_cmd_template": f"./check {pid} --replay {{path}}",
        "engine": "sim",
        "level_claimed": {"category": spec["level"], "text": t["level"], "design_ref": t["ref"]},
        "level_note": t["note"],
        "technique": t["technique"],
    })
m = {
    "version": 1,
    "setup_cmd": "/venv/bin/python -B -c \"import sys; sys.path.insert(0,'/repo'); import torch, einops, inferno; print('setup ok', inferno.__file__)\"",
    "hooks": {
        "guard": "INFERNO_VERIF",
        "enable": "no source hooks exist: checks import /repo's working tree directly (sys.path[0]=/repo); the guard is declared but unused",
        "baseline_off_cmd": "cd /repo && /venv/bin/python -m pytest -q -p no:cacheprovider --timeout=900",
        "source_commits": [],
        "add_only": True,
    },
    "engines": [{
        "name": "sim", "path": "/verif/sim",
        "serves_properties": sorted(PROPS),
        "kind_free_text": "deterministic simulation with fault injection: seeded operation/fault histories generated as plain data, executed against the real inferno classes and small reference models, full-state refinement and history oracles after every event, ddmin minimisation, replay files",
    }],
    "checks": checks,
    "not_applicable": NOT_APPLICABLE + [
        {"property_id": f"C{i:02d}", "reason": "check not built yet (planned in DESIGN.md section 5; not claimed until its check exists)"}
        for i in range(1, 21) if f"C{i:02d}" not in PROPS and f"C{i:02d}" not in {n["property_id"] for n in NOT_APPLICABLE}
    ],
    "notes": NOTES,
}
json.dump(m, open(os.path.join(V, "MANIFEST.json"), "w"), indent=1)
print("wrote MANIFEST.json with", len(checks), "checks")
