#!/bin/bash
# confirms, one at a time, every finished sub-agent output (/tmp/out_<tag> with notes.md) that has not been processed yet
for d in /tmp/out_C*; do
  tag=$(basename $d | sed 's/out_//'); prop=${tag:0:3}
  [ -f "$d/notes.md" ] && [ -f "$d/patch.diff" ] && [ -f "$d/demo.py" ] || continue
  [ -f /tmp/confirm_$tag.log ] && continue
  /verif/tools/confirm_seed.sh $tag $prop > /tmp/confirm_$tag.log 2>&1
  echo "$tag: $(tail -1 /tmp/confirm_$tag.log)"
done
