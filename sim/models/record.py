"""Reference model of a RecordTensor: a plain list of observations.

hist[k] is the observation k steps before the write position (k taken modulo N), i.e. what
``read(k)`` must return.  Shares no code with inferno; torch is used only for dtype casts.
"""
from __future__ import annotations

import math

import numpy as np
import torch

DT = {
    "float32": torch.float32,
    "float64": torch.float64,
    "int64": torch.int64,
    "int32": torch.int32,
    "bool": torch.bool,
}


def to_np(t: torch.Tensor) -> np.ndarray:
    return t.detach().to(torch.float64).cpu().numpy().copy()


def cast_np(t: torch.Tensor, dtype) -> np.ndarray:
    return t.detach().to(dtype).to(torch.float64).cpu().numpy().copy()


def size_formula(dt: float, duration: float, inclusive: bool) -> int:
    return max(math.ceil(duration / dt) + bool(inclusive), 1)


class RecordModel:
    def __init__(self, n: int, shape, init: bool, dtype, initial=None):
        self.n = n
        self.shape = tuple(shape) if shape is not None else None
        self.init = init
        self.dtype = dtype  # torch dtype or None
        if init:
            self.hist = [np.array(initial, dtype=np.float64).reshape(self.shape).copy() for _ in range(n)]
        else:
            self.hist = []

    # -- pointer motion
    def rotate(self, pos: int):
        """incr(pos): new[k] = old[(k-pos) mod N]; decr = rotate(-pos)."""
        n = self.n
        old = self.hist
        self.hist = [old[(k - pos) % n] for k in range(n)]

    def lazy_init(self, shape, dtype):
        self.shape = tuple(shape)
        self.dtype = dtype
        self.init = True
        self.hist = [np.zeros(self.shape, dtype=np.float64) for _ in range(self.n)]

    def write(self, obs: torch.Tensor, offset: int):
        self.hist[offset % self.n] = cast_np(obs, self.dtype).reshape(self.shape)

    def read(self, offset: int) -> np.ndarray:
        return self.hist[offset % self.n]

    def push(self, obs):
        self.write(obs, 0)
        self.rotate(1)

    def _offs(self, offset, length, forward):
        """per-element start offsets o' (np int array of shape S)."""
        if isinstance(offset, torch.Tensor):
            o = offset.detach().cpu().numpy().astype(np.int64)
        else:
            o = np.full(self.shape, int(offset), dtype=np.int64)
        if not forward:
            o = o + (length - 1)
        return o

    def readrange(self, length, offset, forward) -> np.ndarray:
        o = self._offs(offset, length, forward)
        stack = np.stack(self.hist, 0)  # N x S
        out = np.zeros(self.shape + (length,), dtype=np.float64)
        for j in range(length):
            idx = (o - j) % self.n
            out[..., j] = np.take_along_axis(stack, idx[None, ...], 0)[0]
        return out

    def writerange(self, obs: torch.Tensor, offset, forward):
        length = obs.shape[-1]
        o = self._offs(offset, length, forward)
        vals = cast_np(obs, self.dtype)
        stack = np.stack(self.hist, 0).copy()
        for j in range(length):
            idx = (o - j) % self.n
            np.put_along_axis(stack, idx[None, ...], vals[..., j][None, ...], 0)
        self.hist = [stack[k] for k in range(self.n)]

    def fill(self, value):
        v = float(torch.tensor(value).to(self.dtype).to(torch.float64))
        self.hist = [np.full(self.shape, v, dtype=np.float64) for _ in range(self.n)]

    def resize(self, new_n: int):
        """Keep the most recent min(old,new) observations at the same steps-before-present,
        older new slots zero.  'Most recent' = hist[1], hist[2], ... ; hist[0] (== hist[N]) is
        the oldest slot, the one about to be overwritten."""
        if not self.init:
            self.n = new_n
            return
        old_n, old = self.n, self.hist
        new = [np.zeros(self.shape, dtype=np.float64) for _ in range(new_n)]
        for k in range(1, min(old_n, new_n) + 1):
            new[k % new_n] = old[k % old_n]
        self.hist = new
        self.n = new_n
