"""float64 closed forms of the four synapse kernels over a recorded input history."""
from __future__ import annotations

import math

import numpy as np


def closed_current(kind, c, events, dt):
    """events: list of (spikes f64 array, injected f64 array | None), oldest first.  Returns the current after
    the last event: delta Q/dt pulse (+ injected), single exponential Q/tau e^{-age/tau}, double exponential
    Q/(td - tr) (e^{-age/td} - e^{-age/tr})."""
    t = len(events)
    out = np.zeros_like(events[-1][0], dtype=np.float64)
    for i, (s, inj) in enumerate(events):
        age = (t - 1 - i) * dt
        if kind in ("delta", "deltaplus"):
            if i == t - 1:
                out = out + s * (c["Q"] / dt) + (inj if inj is not None else 0.0)
        elif kind == "exp":
            out = out + s * (c["Q"] / c["tau"]) * math.exp(-age / c["tau"])
        else:
            out = out + s * (c["Q"] / (c["tau"] - c["tau_r"])) * (math.exp(-age / c["tau"]) - math.exp(-age / c["tau_r"]))
    return out


def synapse_ctor(kind, c, inplace=False):
    """partial constructor of the real inferno synapse for a configuration dict."""
    from inferno import neural as nn_

    kw = dict(interp_tol=c.get("tol", 0.0), current_overbound=c.get("cob", 0.0), spike_overbound=c.get("sob", False), inplace=inplace)
    if kind == "delta":
        return nn_.DeltaCurrent.partialconstructor(c["Q"], interp_mode=c.get("interp", "previous"), **kw)
    if kind == "deltaplus":
        return nn_.DeltaPlusCurrent.partialconstructor(c["Q"], interp_mode=c.get("interp", "previous"), **kw)
    if kind == "exp":
        return nn_.SingleExponentialCurrent.partialconstructor(c["Q"], c["tau"], spike_interp_mode=c.get("interp", "previous"), **kw)
    return nn_.DoubleExponentialCurrent.partialconstructor(c["Q"], c["tau"], c["tau_r"], spike_interp_mode=c.get("interp", "previous"), **kw)
