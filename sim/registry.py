"""Property -> world / level / budgets."""
import importlib

_WORLDS = {}


def load_world(name):
    if name not in _WORLDS:
        mod = importlib.import_module(f"sim.worlds.{name}")
        _WORLDS[name] = mod.WORLD
    return _WORLDS[name]


COMMON_ASSUME = [
    "CPU, float32 default dtype, no autograd; sampling of histories, not proof",
    "reference models in sim/models and the oracles in the world are correct readings of the documented behaviour",
    "PYTHONHASHSEED fixed to 0 by ./check; GC disabled inside a run",
]

PROPS = {
    "C01": dict(world="record_world", level="exploration",
                quick=dict(runs=40000, wall=240, chunk=500), thorough=dict(runs=1500000, wall=1500, chunk=4000),
                assumptions=COMMON_ASSUME),
    "C02": dict(world="record_world", level="exploration",
                quick=dict(runs=40000, wall=240, chunk=500), thorough=dict(runs=1500000, wall=1500, chunk=4000),
                assumptions=COMMON_ASSUME + ["time arguments closer than max(2e-6, 0.2*tol) to a tolerance/range boundary are not judged (counted as undecided)"]),
    "C19": dict(world="encoder_world", level="exploration",
                quick=dict(runs=20000, wall=240, chunk=500), thorough=dict(runs=800000, wall=1500, chunk=4000),
                assumptions=COMMON_ASSUME + ["refractory periods are multiples of dt and frequency x refrac < 900 (documented constraint < 1000, kept with a margin)"]),
    "C14": dict(world="config_world", level="exploration",
                quick=dict(runs=4000, wall=400, chunk=100), thorough=dict(runs=150000, wall=2400, chunk=500),
                assumptions=COMMON_ASSUME + ["maximum delays and durations are expressed in steps of the final step time and re-asserted after the last dt assignment; record sizes, observation shapes and dtypes of internal histories are compared, not their private dt/duration fields"]),
    "C15": dict(world="lifecycle_world", level="fault_enumeration",
                quick=dict(runs=3000, wall=400, chunk=50), thorough=dict(runs=120000, wall=2400, chunk=500),
                assumptions=COMMON_ASSUME + ["updates are read from the updaters and cleared, never applied, so the control replica sees the same dynamics",
                                             "deleting a monitor the trainer's own step depends on is treated as a user error (only added monitors are deleted)"]),
    "C16": dict(world="hook_world", level="fault_enumeration",
                quick=dict(runs=30000, wall=240, chunk=500), thorough=dict(runs=1200000, wall=1500, chunk=4000),
                assumptions=COMMON_ASSUME + ["hook death is injected as del + gc.collect() of the last reference held by the harness"]),
    "C03": dict(world="neuron_world", level="exploration",
                quick=dict(runs=20000, wall=300, chunk=200), thorough=dict(runs=700000, wall=1800, chunk=1000),
                assumptions=COMMON_ASSUME + ["threshold decisions are judged only when the float64 prediction is farther than 1e-3 (scaled) from the threshold; others counted undecided",
                                             "refractory periods that are integer multiples of a non-dyadic dt (other than 1x, 2x) are not generated: the float32 countdown may legitimately last one step longer"]),
    "C04": dict(world="synapse_world", level="exploration",
                quick=dict(runs=8000, wall=300, chunk=100), thorough=dict(runs=300000, wall=1800, chunk=1000),
                assumptions=COMMON_ASSUME + ["selectors within a float32 rounding margin of a grid point / tolerance boundary accept either the on-grid or the interpolated value (counted by a probe)"]),
    "C05": dict(world="connection_world", level="exploration",
                quick=dict(runs=6000, wall=300, chunk=100), thorough=dict(runs=200000, wall=1800, chunk=1000),
                assumptions=COMMON_ASSUME + ["the linear-map clause is a pure function: the simulator only feeds it history-generated state and a per-run geometry swarm (DESIGN 5.5 caveat); tolerance 3e-5 + 3e-4|b|"]),
    "C06": dict(world="connection_world", level="exploration",
                quick=dict(runs=6000, wall=300, chunk=100), thorough=dict(runs=200000, wall=1800, chunk=1000),
                assumptions=COMMON_ASSUME + ["delays are k*dt computed in float32 as a user would; nearest-interpolated delays within 2% of the half step are not judged"]),
    "C07": dict(world="reducer_world", level="exploration",
                quick=dict(runs=20000, wall=240, chunk=500), thorough=dict(runs=800000, wall=1500, chunk=4000),
                assumptions=COMMON_ASSUME + ["continuous values compared with |a-b| <= 2e-5 + 2e-4|b|; view times within max(4 tol, 0.05 dt) of the grid but outside tol are not judged"]),
    "C08": dict(world="trainer_world", level="exploration",
                quick=dict(runs=8000, wall=400, chunk=100), thorough=dict(runs=300000, wall=2400, chunk=500),
                assumptions=COMMON_ASSUME + ["tolerance 3e-5 + 3e-4 x (|pos| + |neg|); per-sample reward only with a sum batch reduction (the statement does not pin down other reductions)",
                                             "delays are integer multiples of dt for the pair rules (off-grid delays are counted undecided)"]),
    "C09": dict(world="trainer_world", level="exploration",
                quick=dict(runs=8000, wall=400, chunk=100), thorough=dict(runs=300000, wall=2400, chunk=500),
                assumptions=COMMON_ASSUME + ["the signed rule is the float64 closed form of C08/C18; LinearHomeostasis' negative-valued depressive part is a recorded known finding"]),
    "C17": dict(world="layer_world", level="exploration",
                quick=dict(runs=4000, wall=400, chunk=100), thorough=dict(runs=150000, wall=2400, chunk=500),
                assumptions=COMMON_ASSUME + ["layers run in eval mode so adaptive thresholds stay frozen and replay after clear() is comparable; the hand-wired twin is rebuilt by the same seeded factory"]),
    "C18": dict(world="trainer_world", level="exploration",
                quick=dict(runs=8000, wall=400, chunk=100), thorough=dict(runs=300000, wall=2400, chunk=500),
                assumptions=COMMON_ASSUME + ["true last spike times are taken from the recorded history; learned delays are projected to [0, max] after every update"]),
    "C10": dict(world="updater_world", level="exploration",
                quick=dict(runs=8000, wall=300, chunk=100), thorough=dict(runs=300000, wall=1800, chunk=1000),
                assumptions=COMMON_ASSUME + ["applied values compared with 2e-5 + 2e-4|b| (+1e-5 x total part magnitude); non-finite expectations (fractional powers of negative bases after leaving the range) are not judged"]),
    "C11": dict(world="batch_world", level="exploration",
                quick=dict(runs=8000, wall=400, chunk=100), thorough=dict(runs=120000, wall=2400, chunk=500),
                assumptions=COMMON_ASSUME + ["neurons, synapses and layers are compared bit-exactly (layers use delta synapses with dyadic charge/weights and dyadic dt so the matrix reduction is exact); connection outputs and training updates use 2e-5 + 2e-4|b|"]),
    "C12": dict(world="checkpoint_world", level="fault_enumeration",
                quick=dict(runs=400, wall=500, chunk=5), thorough=dict(runs=15000, wall=2700, chunk=20),
                assumptions=COMMON_ASSUME + ["checkpoints are taken at step boundaries (after update()); the restore target has seen at least one step unless the checkpoint itself is the unstepped state (k = 0)",
                                             "no corrupted / torn checkpoints are injected: no property speaks of them"]),
    "C13": dict(world="record_world", level="exploration",
                quick=dict(runs=40000, wall=240, chunk=500), thorough=dict(runs=1500000, wall=1500, chunk=4000),
                assumptions=COMMON_ASSUME),
}
