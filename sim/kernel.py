"""Simulation kernel: seeds, run context (event log, digest, fault / probe counters),
violations, known-finding matching.

One integer decides everything: a run is identified by (VERIF_SEED, property, index);
`run_seed` hashes that to a 64-bit integer and every random choice of the run is drawn
from `random.Random` streams derived from it by name.  Logging never draws from a stream
and no wall clock is read inside a run.
"""
from __future__ import annotations

import hashlib
import json
import os
import random
import struct
from collections import Counter
from typing import Any, Callable

ENGINE_VERSION = 1


# --------------------------------------------------------------------------- seeds
def run_seed(verif_seed: int, prop: str, index: int) -> int:
    h = hashlib.sha256(f"{verif_seed}|{prop}|{index}".encode()).digest()
    return struct.unpack("<Q", h[:8])[0]


def stream(seed: int, name: str) -> random.Random:
    """Named sub-stream of a run seed (string seeding is hash-randomisation independent)."""
    return random.Random(f"{seed}:{name}")


def torch_seed(seed: int, name: str) -> int:
    h = hashlib.sha256(f"{seed}|torch|{name}".encode()).digest()
    return struct.unpack("<Q", h[:8])[0] & 0x7FFFFFFFFFFFFFFF


# --------------------------------------------------------------------------- violations
class Violation(Exception):
    def __init__(self, prop: str, oracle_id: str, facts: dict | None = None, msg: str = ""):
        super().__init__(f"{prop}/{oracle_id}: {msg}")
        self.prop = prop
        self.oracle_id = oracle_id
        self.facts = dict(facts or {})
        self.msg = msg

    def record(self) -> dict:
        return {
            "property": self.prop,
            "oracle_id": self.oracle_id,
            "facts": _plain(self.facts),
            "msg": self.msg[:2000],
        }


class HarnessError(Exception):
    """Raised for problems of the machinery itself (never reported as VIOLATION)."""


def _plain(x: Any) -> Any:
    """Make a value JSON-serialisable plain data."""
    try:
        import torch

        if isinstance(x, torch.Tensor):
            return x.detach().cpu().tolist()
        if isinstance(x, torch.dtype):
            return str(x)
    except Exception:  # pragma: no cover
        pass
    if isinstance(x, dict):
        return {str(k): _plain(v) for k, v in x.items()}
    if isinstance(x, (list, tuple)):
        return [_plain(v) for v in x]
    if isinstance(x, (str, int, float, bool)) or x is None:
        return x
    return repr(x)


# --------------------------------------------------------------------------- known findings
class Known:
    """Committed known-findings file; read-only at run time.

    JSON lines ``{"property","oracle_id","where":{fact:value|[values]},"text"}``.  Lines that
    start with ``fixed:`` are bookkeeping and suppress nothing; ``#`` lines are comments.
    """

    def __init__(self, path: str | None):
        self.entries: list[dict] = []
        self.fixed: list[str] = []
        if path and os.path.exists(path):
            for line in open(path):
                line = line.strip()
                if not line or line.startswith("#"):
                    continue
                if line.startswith("fixed:"):
                    self.fixed.append(line)
                    continue
                self.entries.append(json.loads(line))

    def match(self, prop: str, oracle_id: str, facts: dict) -> dict | None:
        for e in self.entries:
            if e["property"] != prop or e["oracle_id"] != oracle_id:
                continue
            ok = True
            for k, want in e.get("where", {}).items():
                have = facts.get(k, None)
                if isinstance(want, list):
                    if have not in want:
                        ok = False
                else:
                    if have != want:
                        ok = False
                if not ok:
                    break
            if ok:
                return e
        return None


# --------------------------------------------------------------------------- run context
class Ctx:
    """Per-run context handed to a world's executor."""

    def __init__(self, prop: str, known: Known | None = None, collect: bool = True):
        self.prop = prop
        self.known = known
        self._h = hashlib.sha256()
        self.nlog = 0
        self.faults: Counter = Counter()
        self.probes: Counter = Counter()
        self.states: set = set()
        self.known_hits: Counter = Counter()
        self.nontrivial = False
        self.sim_steps = 0
        self.sim_time_ms = 0.0
        self.undecided = 0
        self.judged = 0
        self.collect = collect

    # ---- event log / digest (never draws randomness, never reads clocks)
    def log(self, *items: Any) -> None:
        self.nlog += 1
        h = self._h
        for it in items:
            h.update(_digest_bytes(it))
            h.update(b"|")
        h.update(b"\n")

    def digest(self) -> str:
        return self._h.hexdigest()

    # ---- counters
    def fault(self, kind: str, n: int = 1) -> None:
        self.faults[kind] += n

    def probe(self, name: str, n: int = 1) -> None:
        self.probes[name] += n

    def state(self, key: Any) -> None:
        if self.collect:
            self.states.add(key)

    def step(self, n: int = 1, dt: float = 1.0) -> None:
        self.sim_steps += n
        self.sim_time_ms += n * dt

    # ---- oracles
    def fail(self, oracle_id: str, facts: dict | None = None, msg: str = "") -> bool:
        """Report a failed oracle. Raises Violation unless it is a listed known finding,
        in which case it is counted and True is returned (caller resynchronises)."""
        facts = _plain(facts or {})
        if self.known is not None:
            e = self.known.match(self.prop, oracle_id, facts)
            if e is not None:
                self.known_hits[e["text"]] += 1
                return True
        raise Violation(self.prop, oracle_id, facts, msg)

    def impl(self, op: str, facts: dict | None = None) -> "_ImplRegion":
        """Context manager around calls into inferno that the property says must succeed:
        an exception raised inside is a violation (oracle_id=unexpected_exception)."""
        return _ImplRegion(self, op, facts or {})


class _ImplRegion:
    def __init__(self, ctx: Ctx, op: str, facts: dict):
        self.ctx, self.op, self.facts = ctx, op, facts
        self.waived = False

    def __enter__(self):
        return self

    def __exit__(self, et, ev, tb):
        if et is None:
            return False
        if issubclass(et, (Violation, HarnessError, KeyboardInterrupt, SystemExit, MemoryError)):
            return False
        facts = dict(self.facts)
        facts.update({"op": self.op, "exc": et.__name__})
        # raises Violation unless known
        self.waived = self.ctx.fail(
            "unexpected_exception", facts, f"{self.op}: {et.__name__}: {str(ev)[:300]}"
        )
        return True  # swallow (known finding)


def _digest_bytes(x: Any) -> bytes:
    try:
        import torch

        if isinstance(x, torch.Tensor):
            t = x.detach()
            if t.dtype == torch.bool:
                t = t.to(torch.uint8)
            return (
                str(x.dtype).encode()
                + str(tuple(x.shape)).encode()
                + t.contiguous().cpu().numpy().tobytes()
            )
    except Exception:
        pass
    if isinstance(x, bytes):
        return x
    if isinstance(x, float):
        return struct.pack("<d", x)
    if isinstance(x, (list, tuple)):
        return b"[" + b",".join(_digest_bytes(v) for v in x) + b"]"
    if isinstance(x, dict):
        return b"{" + b",".join(
            _digest_bytes(k) + b":" + _digest_bytes(v) for k, v in sorted(x.items(), key=lambda kv: str(kv[0]))
        ) + b"}"
    return repr(x).encode()


# --------------------------------------------------------------------------- world interface
class World:
    """A world turns a seed into a concrete run description and executes descriptions.

    generate(seed, prop, tier) -> desc (plain JSON data: {"config":…, "ops":[…]})
    execute(desc, ctx)         -> None; raises Violation through ctx.fail / ctx.impl
    """

    name = "world"
    real: list[str] = []
    stub: list[str] = []
    state_measure = ""
    rule = ""

    def generate(self, seed: int, prop: str, tier: str) -> dict:  # pragma: no cover
        raise NotImplementedError

    def execute(self, desc: dict, ctx: Ctx) -> None:  # pragma: no cover
        raise NotImplementedError

    # optional extra shrink candidates: yields smaller descs
    def shrink(self, desc: dict):
        return iter(())


def scribble(ctx, tensors):
    """aliasing fault: the caller reuses (overwrites in place) tensors it has just handed to the system under test;
    a component that kept a reference instead of a copy shows it in its next read"""
    import torch

    for t in tensors:
        if not isinstance(t, torch.Tensor):
            continue
        if t.dtype == torch.bool:
            t.copy_(~t)
        else:
            t.add_(3)
    ctx.fault("caller_overwrites_input_tensor")
