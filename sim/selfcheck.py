"""Determinism helper: prints one digest per run index so two interpreters can be diffed."""
from .kernel import Known, run_seed
from .runner import KNOWN_PATH, execute_once


def print_digests(prop, spec, tier, verif_seed, runs, start):
    from .registry import load_world
    import torch

    torch.set_num_threads(1)
    world = load_world(spec["world"])
    known = Known(KNOWN_PATH)
    for i in range(start, start + runs):
        seed = run_seed(verif_seed, prop, i)
        desc = world.generate(seed, prop, tier)
        ctx, v = execute_once(world, prop, desc, known)
        print(f"DIGEST {prop} {i} {seed} {ctx.digest()} {v.oracle_id if v else '-'}")
    return 0
