"""Per-property manifest wording."""
SIM = "deterministic simulation: seeded operation and fault histories vs reference model"
TEXT = {
    "C01": dict(
        level="Seeded search over operation histories of the real RecordTensor (all public ring-buffer ops, scalar and tensor offsets, in-place and not, ranges that wrap or span the record, lazily created storage, refused operations as faults) checked op by op against a list-of-observations model with full-state refinement (read(k) for every k) after every operation. Exploration is the right level: the state space (contents x pointer x history) is unbounded, so the evidence is a large sample of histories, not a proof.",
        ref="DESIGN.md 5.1", note="Trusts the list model in sim/models/record.py and torch's dtype cast; payload values are unique so every value read is attributable to one write.",
        technique=SIM + " (list-of-observations ring buffer), refused-operation faults"),
    "C02": dict(
        level="Same world as C01 with time-indexed select/insert interleaved with the ring-buffer writers so the pointer is anywhere; spy interpolation/extrapolation callables observe which samples and which elapsed time the record hands over; scalar/tensor twins; out-of-range times as refused-operation faults; round trips through every shipped interp/extrap pair.",
        ref="DESIGN.md 5.2", note="Times closer than a float32 rounding margin to a tolerance or range boundary are not judged (counted as undecided in the evidence).",
        technique=SIM + ", spy callables through the public interp=/extrap= seams"),
    "C03": dict(
        level="Simulated time over all eight neuron classes: every step is a refinement check from the real pre-state against a float64 mirror of the documented equations (refractory decrement floored at 0, out-of-refractory mask, integrated voltage vs current threshold incl. adaptive thresholds / adaptation currents, reset voltage, voltage lock, refractory time after the step, spike attribute), plus whole-history invariants (no spike and no locked-voltage change before t + max(1, ceil(refrac/dt))); inputs include zero, constant, gaussian, huge, negative and adversarial near-threshold drives solved from the pre-state; clear() and train/eval switches are injected between steps.",
        ref="DESIGN.md 5.4", note="Threshold decisions within a scaled 1e-3 margin are counted as undecided, never judged; neuron.spike with refrac_t == 0 is a recorded known finding.",
        technique="deterministic simulation: simulated step clock, per-step refinement vs float64 mirror, history invariants, clear/mode-switch events"),
    "C04": dict(
        level="Seeded spike trains and injected currents over all four synapse classes with clear() faults and an in-place twin; after every step the reported current is compared with the float64 sum of the documented kernels over the recorded events and the stored spikes with the inputs; delayed queries (current_at / spike_at) with per-element selectors on the grid, between steps, at the limit and beyond the supported delay are compared with the recorded history, the documented interpolation rule and the configured out-of-bounds value (value at the limit when none).",
        ref="DESIGN.md 5.6", note="Selectors within a float32 rounding margin of a grid point or tolerance boundary accept either reading; tolerance 2e-5 + 2e-4|b| for continuous values, exact for recorded on-grid values.",
        technique="deterministic simulation: seeded spike histories with clear faults, closed-form history oracle, past reads vs recorded history, in-place twin replica"),
    "C07": dict(
        level="Seeded observation histories (boolean and real, with conditions) with interleaved clear(keepshape True/False) faults against every trace / fold reducer and the functional trace_* family; after each observation the latest value is compared with the float64 closed form over the event list since the last clear, an in-place twin must stay bit-identical, and time-indexed views (scalar, tensor, on and off the grid) and dumps are compared with the values the reducer itself reported at those steps.",
        ref="DESIGN.md 5.8", note="Continuous values use |a-b| <= 2e-5 + 2e-4|b|; views older than the first observation since a clear are not judged (nothing was recorded then).",
        technique="deterministic simulation: seeded event histories with clear faults vs float64 closed forms and the recorded history"),
    "C10": dict(
        level="Schedules: K contributor tasks' part contributions are interleaved by the seeded scheduler with a reader task (touching the cached .pos/.neg between appends), update / updatesome / clear / delete tasks; the pending-multiset model predicts old + ub(reduce(pos)) - lb(reduce(neg)) in float64 for every shipped half and full bounding function, a replica executing a permuted schedule must agree within rounding, nothing pending must leave the parameter bit-identical, and a spy reduction passed at construction must be the one called. A long-run mode applies up to 400 bounded updates with magnitudes inside the documented limits and checks the range / sharp invariants after every update.",
        ref="DESIGN.md 5.11", note="Values beyond 1e12 (runaway unscaled power bounds) are not judged; tolerance 2e-5 + 2e-4|b|.",
        technique="deterministic simulation: seeded task interleavings vs pending-multiset model, permuted-schedule replica, long-run invariant"),
    "C13": dict(
        level="Reconfiguration operations (dt, duration, inclusive, reconstrain add/edit/remove) issued from every reachable ring state (any pointer, any fill level, initialised or lazy storage) interleaved with the C01 operations; size formula, tail preservation, zero fill and constraint bookkeeping checked after every operation; a second sub-world drives ShapedTensor constraint bookkeeping (strict/non-strict, live, ignored storage).",
        ref="DESIGN.md 5.3", note="Edits of observation-dimension constraints that would resize the observation are outside the statement and skipped; strict constraints follow the documented minimum-dimensionality rule.",
        technique=SIM + ", resize-from-any-state faults"),
    "C16": dict(
        level="Fault sequences over the hook life cycle: seeded histories of create/register/double-register/deregister/re-register, enable-flag and train/eval switches, module calls, manual calls (force, ignore_mode) and the death of the hook object (last reference dropped + gc.collect()) on a real target module; after every operation the model fires(call) <=> alive & registered & enabled(mode) is compared with probe-hook call counts, pre/post position and the number of handles left on the module; the shipped Clamping / Normalization hooks are checked for their post-conditions each time the model says they ran and for leaving the attribute untouched when they must not run.",
        ref="DESIGN.md 5.16", note="Object death is injected by dropping the harness's last reference and collecting; norms of vectors with 0 < norm < 1e-6 are not judged.",
        technique="deterministic simulation: seeded lifecycle and object-death fault sequences vs hook state-machine model"),
    "C19": dict(
        level="The torch.Generator seed is the random schedule: every encode operation of a run gets its own seed behind the existing generator seam; offline, online and two online iterators interleaved over one shared generator are executed twice from the same generator state and compared; shape/dtype/slice count, silence at zero intensity and the refractory gap are checked on every emitted train.",
        ref="DESIGN.md 5.19", note="Refractory periods are multiples of dt; frequency x refrac < 900 (documented domain < 1000).",
        technique="deterministic simulation: seeded generator schedules and iterator interleavings, history oracles over emitted spike trains"),
}
NOT_APPLICABLE = [
    {"property_id": "C20", "reason": "pure functions of their arguments (interp/extrap inverses, distribution identities, ISI re-integration, Victor-Purpura metric laws): no state, clock, schedule, fault or history for a simulator to control; input generation in simulator costume would not be this technique"},
]
NOTES = "All checks run real inferno code from /repo's working tree; no hooks were added to /repo. fix: commits in /repo are listed in known_findings.jsonl as 'fixed:' lines. Exit codes: 0 held, 1 VIOLATION, 2 harness error."
