"""CLI: ./check <ID> [--tier quick|thorough] [--replay file] [--runs N] [--wall S] [--workers N] [--start I]"""
import argparse
import os
import sys

VERIF = os.path.dirname(os.path.dirname(os.path.abspath(__file__)))
# the system under test is imported from /repo's working tree (VERIF_REPO only for self-tests)
REPO = os.environ.get("VERIF_REPO", "/repo")
sys.path.insert(0, REPO)
sys.path.insert(0, VERIF)


def main():
    ap = argparse.ArgumentParser()
    ap.add_argument("prop")
    ap.add_argument("--tier", default=os.environ.get("VERIF_TIER", "quick"), choices=["quick", "thorough"])
    ap.add_argument("--replay")
    ap.add_argument("--runs", type=int)
    ap.add_argument("--wall", type=float)
    ap.add_argument("--workers", type=int)
    ap.add_argument("--start", type=int, default=0)
    ap.add_argument("--seed", type=int, default=int(os.environ.get("VERIF_SEED", "0") or 0))
    ap.add_argument("--digest", action="store_true", help="print per-run digests (determinism self-test)")
    a = ap.parse_args()

    import inferno

    if not os.path.realpath(inferno.__file__).startswith(os.path.realpath(REPO) + os.sep):
        print(f"HARNESS-ERROR inferno imported from {inferno.__file__}, expected under {REPO}")
        return 2

    from sim import runner
    from sim.registry import PROPS

    if a.replay:
        return runner.replay_file(a.replay)
    if a.prop not in PROPS:
        print(f"HARNESS-ERROR unknown property {a.prop}")
        return 2
    if a.digest:
        from sim.selfcheck import print_digests

        return print_digests(a.prop, PROPS[a.prop], a.tier, a.seed, a.runs or 50, a.start)
    return runner.run_batch(a.prop, PROPS[a.prop], a.tier, a.seed, runs=a.runs, wall=a.wall,
                            workers=a.workers, start=a.start)


if __name__ == "__main__":
    try:
        rc = main()
    except SystemExit:
        raise
    except BaseException:
        import traceback

        traceback.print_exc()
        print("HARNESS-ERROR uncaught exception in the runner")
        rc = 2
    sys.stdout.flush()
    sys.exit(rc)
