"""record_world: one inferno.Module owning one RecordTensor, driven by a seeded operation
history and checked against the list-of-observations model (C01, C02, C13)."""
from __future__ import annotations

import math

import numpy as np
import torch
import torch.nn as nn

from ..kernel import World, stream
from ..models.record import DT, RecordModel, cast_np, size_formula, to_np

DTS = [1.0, 0.5, 0.25, 2.0, 0.1, 1.3]
DYADIC = {1.0, 0.5, 0.25, 2.0}
SHAPES = [[1], [3], [2, 2], [2], []]
KINDS = ["f32", "f32", "f64", "i64", "param", "none", "empty0", "uninit"]
KIND_DTYPE = {"f32": "float32", "f64": "float64", "i64": "int64", "param": "float32",
              "none": None, "empty0": "float32", "uninit": "float32"}
PAIRS = ["previous", "next", "nearest", "linear_fwd", "linear_bwd", "expdecay", "expratedecay", "linear_fwd_adj", "linear_bwd_adj"]


def _tt(x, dtype):
    return torch.tensor(x, dtype=DT[dtype])


class _Vals:
    """unique payload values"""

    def __init__(self, rng):
        self.c = 10
        self.rng = rng

    def tensor(self, shape, frac=False):
        n = int(np.prod(shape))
        vals = []
        for _ in range(n):
            self.c += 1
            vals.append(float(self.c) + (0.5 if frac and self.rng.random() < 0.5 else 0.0))
        return np.array(vals, dtype=np.float64).reshape(shape).tolist()


class RecordWorld(World):
    name = "record_world"
    real = ["inferno.Module", "inferno.RecordTensor", "inferno.ShapedTensor",
            "inferno.functional.interp_*/extrap_* (round-trip oracle)"]
    stub = ["spy interpolation/extrapolation callables passed through the public interp=/extrap= arguments"]
    state_measure = "distinct (N, pointer, writes-since-reset capped at N, last op kind, storage kind, initialised)"
    rule = ("each run = seeded configuration (dt, duration, inclusive -> N; observation shape; storage kind) + a "
            "seeded list of public RecordTensor operations with unique payload values, executed against the real "
            "class and a list-of-observations model with full-state refinement after every op; non-trivial = at "
            "least one state-changing op executed on initialised storage; distinct = distinct event-log digests")

    # ------------------------------------------------------------------ generation
    def generate(self, seed, prop, tier):
        rc = stream(seed, "config")
        ro = stream(seed, "ops")
        dt = rc.choice(DTS)
        ntarget = rc.choice([1, 1, 2, 2, 3, 3, 4, 5, 8, 8, 16, 40, 150] if prop == "C02" else [1, 1, 2, 2, 3, 3, 4, 5, 8, 16, 40])
        inclusive = rc.random() < 0.4
        # duration giving (about) the target size; the model recomputes N by the documented formula
        if inclusive:
            duration = dt * (ntarget - 1) if ntarget > 1 else 0.0
        else:
            duration = dt * ntarget
        if rc.random() < 0.25 and ntarget > 1:
            duration -= dt * rc.choice([0.25, 0.5, 0.6])  # not a multiple of dt
        duration = max(duration, 0.0)
        shape = rc.choice(SHAPES)
        if prop == "C02" and not shape:
            shape = [1]       # time-indexed access to scalar observations is not exercised (0-d time tensors)
        kind = rc.choice(KINDS)
        if prop == "C02":
            kind = rc.choice(["f32", "f32", "f64", "param", "empty0", "uninit", "i64"])   # integer storage: time-indexed reads only
        cfg = {"dt": dt, "duration": duration, "inclusive": inclusive, "shape": shape, "kind": kind,
               "inplace_default": rc.random() < 0.5, "mode": "record"}
        vals = _Vals(ro)
        cfg["initial"] = vals.tensor(shape)
        if prop == "C13" and rc.random() < 0.3:
            return self._gen_shaped(seed, rc, ro)
        n = size_formula(dt, duration, inclusive)
        nops = ro.randint(3, 40 if tier == "thorough" else 28)
        ops = []
        dtype = KIND_DTYPE[kind]
        lazy = kind in ("none", "empty0", "uninit")
        state = {"n": n, "dt": dt, "duration": duration, "inclusive": inclusive}
        for _ in range(nops):
            ops.append(self._gen_op(prop, ro, vals, cfg, state, dtype, lazy))
        return {"config": cfg, "ops": ops}

    def _obs(self, ro, vals, shape, dtype, lazy):
        # dtype of the pushed observation: mostly the record's dtype, sometimes another
        odt = dtype or ro.choice(["float32", "float32", "int64", "float64"])
        if ro.random() < 0.12:
            odt = ro.choice(["float32", "int64", "float64"])
        frac = odt.startswith("float") and ro.random() < 0.5
        return {"v": vals.tensor(shape, frac), "dtype": odt}

    def _gen_op(self, prop, ro, vals, cfg, st, dtype, lazy):
        n, shape = st["n"], cfg["shape"]
        r = ro.random()
        inplace = ro.random() < 0.5

        def offset_scalar():
            return ro.randint(0, 2 * n)

        def offset_any():
            if ro.random() < 0.5:
                return offset_scalar()
            if ro.random() < 0.3:
                o = ro.randint(0, 2 * n)
                return {"t": np.full(shape, o, dtype=np.int64).tolist()}
            return {"t": np.array([ro.randint(0, 2 * n) for _ in range(int(np.prod(shape)))]).reshape(shape).tolist()}

        # ---------------- property specific ops
        if prop == "C02" and r < 0.45:
            return self._gen_time_op(ro, vals, cfg, st)
        if prop == "C13" and r < 0.35:
            k = ro.random()
            if k < 0.3:
                ndt = ro.choice(DTS)
                st["dt"] = ndt
                st["n"] = size_formula(st["dt"], st["duration"], st["inclusive"])
                return {"op": "set_dt", "v": ndt}
            if k < 0.7:
                nn_ = ro.choice([0, 1, 2, 3, 4, 5, 6, 9])
                ndur = st["dt"] * nn_ - (st["dt"] * ro.choice([0, 0, 0.5, 0.3]) if nn_ else 0.0)
                if ro.random() < 0.2:
                    ndur = ro.choice([3.9, 0.3, 2.6, 0.7, 5.2])
                st["duration"] = max(ndur, 0.0)
                st["n"] = size_formula(st["dt"], st["duration"], st["inclusive"])
                return {"op": "set_duration", "v": st["duration"]}
            if k < 0.85:
                st["inclusive"] = not st["inclusive"] if ro.random() < 0.8 else st["inclusive"]
                st["n"] = size_formula(st["dt"], st["duration"], st["inclusive"])
                return {"op": "set_inclusive", "v": st["inclusive"]}
            # reconstrain on a record tensor (observation dims)
            nd = len(shape)
            if nd == 0:
                return {"op": "peek"}
            dim = ro.randint(-nd, nd - 1)
            kk = ro.random()
            if kk < 0.4:
                return {"op": "reconstrain", "dim": dim, "size": shape[dim]}      # add / no-op edit (compatible)
            if kk < 0.6:
                return {"op": "reconstrain", "dim": dim, "size": None}            # remove
            if kk < 0.8:
                return {"op": "reconstrain", "dim": dim, "size": shape[dim] + ro.choice([1, 2])}  # incompatible add / edit
            return {"op": "reconstrain", "dim": dim, "size": max(1, shape[dim] - 1)}
        # ---------------- common ring-buffer ops
        if r < 0.30 or (lazy and ro.random() < 0.15):
            return {"op": "push", "obs": self._obs(ro, vals, shape, dtype, lazy), "inplace": inplace}
        if r < 0.36:
            return {"op": "pop"}
        if r < 0.41:
            return {"op": "peek"}
        if r < 0.49:
            return {"op": "read", "offset": offset_scalar()}
        if r < 0.58:
            return {"op": "write", "obs": self._obs(ro, vals, shape, dtype, lazy), "offset": offset_scalar(), "inplace": inplace}
        if r < 0.69:
            L = ro.choice([1, n, n, ro.randint(1, n), ro.randint(1, n)])
            return {"op": "readrange", "length": L, "offset": offset_any(), "forward": ro.random() < 0.5,
                    "twin": ro.random() < 0.5}
        if r < 0.80:
            L = ro.choice([1, n, ro.randint(1, n), ro.randint(1, n)])
            o = self._obs(ro, vals, shape + [L], dtype, lazy)
            o["dtype"] = dtype or o["dtype"]   # range writes use the record's dtype (cross-dtype is 'xdtype' below)
            xd = False
            if ro.random() < 0.08:
                o["dtype"] = ro.choice(["float32", "int64", "float64"])
                o["v"] = np.floor(np.array(o["v"])).tolist()
                xd = True
            return {"op": "writerange", "obs": o, "offset": offset_any(), "forward": ro.random() < 0.5, "inplace": inplace, "xdtype": xd}
        if r < 0.84:
            return {"op": "incr", "pos": ro.choice([1, 1, 2, ro.randint(0, 2 * n)])}
        if r < 0.88:
            return {"op": "decr", "pos": ro.choice([1, 1, 2, ro.randint(0, 2 * n)])}
        if r < 0.91:
            return {"op": "align", "index": ro.randint(0, n - 1)}
        if r < 0.93:
            if ro.random() < 0.35:
                return {"op": "deinit", "uninit": ro.random() < 0.4}
            return {"op": "reset", "fill": ro.choice([0, 0, 1, 7, None])}
        if r < 0.95:
            return {"op": "latest_set", "obs": self._obs(ro, vals, shape, dtype, lazy)}
        if r < 0.96:
            return {"op": "latest_del"}
        # refused operations
        k = ro.choice(["bad_write_shape", "bad_push_shape", "bad_offset_shape", "too_long", "bad_align"])
        bad_shape = shape + [2] if (ro.random() < 0.5 or not shape) else [shape[0] + 1] + shape[1:]
        if k in ("bad_write_shape", "bad_push_shape"):
            return {"op": "refused", "kind": k, "obs": {"v": vals.tensor(bad_shape), "dtype": dtype or "float32"}, "inplace": inplace}
        if k == "bad_offset_shape":
            return {"op": "refused", "kind": k, "length": ro.randint(1, n), "offset": {"t": np.zeros(bad_shape, dtype=np.int64).tolist()},
                    "write": ro.random() < 0.5, "inplace": inplace}
        if k == "too_long":
            return {"op": "refused", "kind": k, "obs": {"v": vals.tensor(shape + [n + 1]), "dtype": dtype or "float32"},
                    "offset": ro.randint(0, n), "inplace": inplace}
        return {"op": "refused", "kind": "bad_align", "index": n + ro.randint(0, 2)}

    def _gen_time_op(self, ro, vals, cfg, st):
        n, dt, shape = st["n"], st["dt"], cfg["shape"]
        dyadic = dt in DYADIC
        tol = ro.choice([0.0, 1e-6, 1e-3, dt / 8]) if dyadic else ro.choice([1e-6, 1e-6, 1e-3, dt / 8])
        tdtype = ro.choice(["float32", "float32", "float64"])
        limit = dt * (n - 1)
        numel = int(np.prod(shape))

        just = [False]

        def one_time(allow_band=True):
            c = ro.random()
            k = ro.randint(0, n - 1)
            if c > 0.9 and n > 1:
                # just outside the tolerance of a grid point (needs float64 times to be decidable)
                k = ro.choice([n - 2, n - 2, ro.randint(0, n - 2)])
                d = tol * ro.choice([2, 3, 10]) + dt * ro.choice([0.0, 1e-7, 1e-5, 1e-4])
                if 0 < d < 0.3 * dt:
                    just[0] = True
                    return (k + 1) * dt - d if ro.random() < 0.5 or k + 1 > n - 1 else k * dt + d, "just"
            if c < 0.35:
                return float(np.float32(k * dt)) if tdtype == "float32" else k * dt, "grid"
            if c < 0.45 and tol >= 1e-3 and allow_band:
                e = tol / 4 * ro.choice([-1, 1])
                t = k * dt + e
                return t, "near"
            if c < 0.55:
                return (0.0 if ro.random() < 0.5 else limit), "limit"
            if c < 0.62 and tol >= 1e-3 and allow_band:
                return (limit + tol / 2 if ro.random() < 0.5 else -tol / 2), "band"
            if n == 1:
                return 0.0, "grid"
            k = ro.randint(0, n - 2)
            lo = max(4 * tol, 0.1 * dt)
            f = ro.choice([0.5, 0.25, 0.75, ro.uniform(lo / dt, 1 - lo / dt)])
            if abs(f - 0.5) < 0.02:
                f = 0.5 if ro.random() < 0.3 else 0.37
            f = min(max(f, lo / dt), 1 - lo / dt)
            return (k + f) * dt, "off"

        form = ro.choice(["scalar", "tensor", "tensor", "tensorD"])
        which = "select" if ro.random() < 0.55 else "insert"
        if which == "insert" and form == "tensorD":
            form = "tensor"
        reject = ro.random() < 0.08
        if form == "scalar":
            t, _ = one_time()
            times = t
        elif form == "tensor":
            times = np.array([one_time()[0] for _ in range(numel)]).reshape(shape).tolist()
        else:
            D = ro.randint(1, 3)
            times = np.array([one_time()[0] for _ in range(numel * D)]).reshape(shape + [D]).tolist()
        if reject:
            bad = (limit + max(2 * tol, 1e-4) + ro.choice([0.0, dt / 2, 3 * dt])) if ro.random() < 0.6 else -(max(2 * tol, 1e-4) + ro.choice([0.0, dt / 2]))
            if form == "scalar":
                times = bad
            else:
                arr = np.array(times, dtype=np.float64)
                arr.flat[ro.randrange(arr.size)] = bad
                times = arr.tolist()
        if just[0]:
            tdtype = "float64"
        op = {"op": which, "time": times, "form": form, "tol": tol, "tdtype": tdtype,
              "offset": ro.choice([1, 1, 0, 2, ro.randint(0, 2 * n), -ro.randint(1, n)]) if which == "select" else ro.choice([0, 0, 1, ro.randint(0, 2 * n), -ro.randint(1, n)]),
              "mode": ro.choice(["spy", "spy", "pair"]), "pair": ro.choice(PAIRS), "twin": ro.random() < 0.4,
              "tc": ro.choice([0.7, 2.0, 5.0, 20.0]), "reject": reject}
        if which == "insert":
            op["obs"] = {"v": vals.tensor(shape, True), "dtype": "float32"}
            op["inplace"] = ro.random() < 0.5
        return op

    def _gen_shaped(self, seed, rc, ro):
        """ShapedTensor constraint bookkeeping sub-world (C13)."""
        nd = rc.choice([1, 2, 3])
        shape = [rc.choice([1, 2, 3, 4]) for _ in range(nd)]
        kind = rc.choice(["f32", "param", "none", "empty0", "uninit"])
        strict = rc.random() < 0.5
        cons = {}
        for _ in range(rc.randint(0, 2)):
            d = rc.randint(-nd, nd - 1)
            if strict and any((d % nd) == (e % nd) for e in cons):
                continue
            cons[d] = shape[d]
            if strict:
                # the documented minimum dimensionality for strict constraints: positive and negative
                # constraints may never overlap, ndim >= (max positive + 1) + |min negative|
                need = max(max(cons) + 1, 0) - min(min(cons), 0)
                if need > nd:
                    del cons[d]
        cfg = {"mode": "shaped", "shape": shape, "kind": kind, "strict": strict, "constraints": {str(k): v for k, v in cons.items()},
               "live": rc.random() < 0.3}
        ops = []
        for _ in range(ro.randint(2, 14)):
            r = ro.random()
            d = ro.randint(-nd - 1, nd)
            if r < 0.45:
                ops.append({"op": "reconstrain", "dim": d, "size": ro.choice([shape[d % nd], shape[d % nd], 1, 2, 3, 5, 0])})
            elif r < 0.65:
                ops.append({"op": "reconstrain", "dim": d, "size": None})
            elif r < 0.8:
                ns = [ro.choice([1, 2, 3, 4]) for _ in range(ro.choice([nd, nd, max(1, nd - 1), nd + 1]))]
                ops.append({"op": "assign", "shape": ns})
            else:
                ops.append({"op": "check"})
        return {"config": cfg, "ops": ops}

    # ------------------------------------------------------------------ execution
    def execute(self, desc, ctx):
        cfg = desc["config"]
        if cfg.get("mode") == "shaped":
            return self._exec_shaped(desc, ctx)
        return _RecordRun(self, desc, ctx).run()

    def shrink(self, desc):
        cfg = desc["config"]
        if cfg.get("mode") == "shaped":
            return
        if cfg["shape"] != [1]:
            # cannot shrink shape without regenerating payloads; skip
            pass
        for i, op in enumerate(desc.get("ops", [])):
            if isinstance(op.get("offset"), int) and op["offset"] > 0:
                c = _copy(desc)
                c["ops"][i]["offset"] = op["offset"] - 1
                yield c
            if op.get("twin"):
                c = _copy(desc)
                c["ops"][i]["twin"] = False
                yield c

    # ---- ShapedTensor bookkeeping
    def _exec_shaped(self, desc, ctx):
        from inferno import Module, ShapedTensor

        cfg = desc["config"]
        shape = list(cfg["shape"])
        kind = cfg["kind"]
        strict = cfg["strict"]
        cons = {int(k): v for k, v in cfg["constraints"].items()}
        owner = Module()
        val = _make_storage(kind, shape, 1.0)
        with ctx.impl("ShapedTensor()"):
            ShapedTensor.create(owner, "st", val, dict(cons), strict=strict, live=cfg["live"])
        st = owner.st
        model = dict(cons)

        def ignored(v):
            return v is None or isinstance(v, (nn.UninitializedBuffer, nn.UninitializedParameter)) or (v.ndim == 1 and v.numel() == 0)

        def indep_valid(v, cons_):
            if ignored(v):
                return True
            nd = v.ndim
            seen = {}
            for d, s in cons_.items():
                if d >= nd or d < -nd:
                    return False
                if v.shape[d] != s:
                    return False
                if strict:
                    if (d % nd) in seen:
                        return False
                    seen[d % nd] = True
            return True

        for i, op in enumerate(desc["ops"]):
            kindop = op["op"]
            before_cons = st.constraints
            before_val = st.value
            before_bytes = None if ignored(before_val) else before_val.detach().clone()
            pre_valid = indep_valid(before_val, before_cons)
            if kindop == "reconstrain":
                dim, size = op["dim"], op["size"]
                try:
                    st.reconstrain(dim, size)
                    raised = None
                except Exception as e:  # noqa
                    raised = e
                after = st.constraints
                ctx.log("reconstrain", dim, size, type(raised).__name__ if raised else "ok", sorted(after.items()))
                ctx.nontrivial = True
                if raised is not None:
                    ctx.fault("refused_constraint")
                    if not (dim not in before_cons and size is not None):
                        continue   # the statement speaks of refused *additions* only
                    # refused without side effects
                    if after != before_cons or st.value is not before_val or (
                        before_bytes is not None and not torch.equal(st.value.detach(), before_bytes)
                    ):
                        ctx.fail("refused_side_effect", {"op": "reconstrain", "kind": kind, "exc": type(raised).__name__},
                                 f"reconstrain({dim},{size}) raised {type(raised).__name__} but changed state: {before_cons}->{after}")
                    continue
                if size is None:
                    # removal never alters data
                    if st.value is not before_val or (before_bytes is not None and not torch.equal(st.value.detach(), before_bytes)):
                        ctx.fail("remove_altered_data", {"kind": kind}, f"removing constraint on dim {dim} altered data")
                    if dim in after:
                        ctx.fail("remove_kept", {"kind": kind}, "constraint still present after removal")
                else:
                    if after.get(dim) != size:
                        ctx.fail("constraint_not_recorded", {"kind": kind}, f"constraints {after} after reconstrain({dim},{size})")
                    if dim not in before_cons and not ignored(before_val):
                        # adding never resizes: data identical
                        if st.value is not before_val or not torch.equal(st.value.detach(), before_bytes):
                            ctx.fail("add_altered_data", {"kind": kind}, "adding a constraint altered data")
                # bookkeeping: valid => independent check passes
                v = st.value
                if st.valid and not indep_valid(v, after):
                    ctx.fail("valid_but_unsatisfied", {"kind": kind, "strict": strict},
                             f"valid=True but shape {None if ignored(v) else tuple(v.shape)} vs {after}")
                if pre_valid and not st.valid:
                    ctx.fail("invalid_after_accepted_reconstrain", {"kind": kind, "strict": strict},
                             f"reconstrain({dim},{size}) accepted but tensor invalid: {None if ignored(v) else tuple(v.shape)} vs {after}")
            elif kindop == "assign":
                newv = torch.ones(op["shape"])
                try:
                    st.value = newv
                    raised = None
                except Exception as e:  # noqa
                    raised = e
                ctx.log("assign", op["shape"], type(raised).__name__ if raised else "ok")
                if cfg["live"]:
                    ok = indep_valid(newv, st.constraints)
                    if raised is None and not ok and not _compat_nonstrict_alias(newv, st.constraints, strict):
                        ctx.fail("live_accepted_invalid", {"kind": kind, "strict": strict},
                                 f"live assignment of {op['shape']} accepted under {st.constraints}")
                    if raised is not None and st.value is not before_val:
                        ctx.fail("refused_side_effect", {"op": "assign", "kind": kind}, "refused assignment changed value")
                    if raised is not None:
                        ctx.fault("refused_assignment")
            else:
                v = st.value
                ctx.log("check", st.valid)
                if st.valid and not indep_valid(v, st.constraints):
                    ctx.fail("valid_but_unsatisfied", {"kind": kind, "strict": strict},
                             f"valid=True but shape {None if ignored(v) else tuple(v.shape)} vs {st.constraints}")
            ctx.state(("shaped", kind, strict, tuple(sorted(st.constraints.items())), None if ignored(st.value) else tuple(st.value.shape)))


def _compat_nonstrict_alias(v, cons, strict):
    return False


def _copy(d):
    import copy

    return copy.deepcopy(d)


def _make_storage(kind, shape, initial):
    if kind == "f32":
        return torch.tensor(initial, dtype=torch.float32).reshape(shape).clone() if not isinstance(initial, float) else torch.full(shape, initial)
    if kind == "f64":
        return torch.tensor(initial, dtype=torch.float64).reshape(shape).clone()
    if kind == "i64":
        return torch.tensor(initial, dtype=torch.float64).reshape(shape).to(torch.int64)
    if kind == "param":
        t = torch.tensor(initial, dtype=torch.float32).reshape(shape).clone() if not isinstance(initial, float) else torch.full(shape, initial)
        return nn.Parameter(t, requires_grad=False)
    if kind == "none":
        return None
    if kind == "empty0":
        return torch.empty(0)
    if kind == "uninit":
        return nn.UninitializedBuffer()
    raise ValueError(kind)


# ====================================================================== record run
def _adjust(x):
    return x * 0.5 + 1.0


class _SpyInterp:
    def __init__(self):
        self.calls = []

    def __call__(self, prev_data, next_data, sample_at, step_time, **kw):
        tag = 1000.0 + torch.arange(prev_data.numel(), dtype=prev_data.dtype).reshape(prev_data.shape) * 0.5
        self.calls.append((prev_data.clone(), next_data.clone(), sample_at.clone() if isinstance(sample_at, torch.Tensor) else sample_at, step_time, tag))
        return tag.clone()


class _SpyExtrap:
    def __init__(self):
        self.calls = []

    def __call__(self, sample, sample_at, prev_data, next_data, step_time, **kw):
        base = torch.arange(prev_data.numel(), dtype=prev_data.dtype).reshape(prev_data.shape) * 0.5
        p, n = 2000.0 + base, 3000.0 + base
        self.calls.append((sample.clone(), sample_at.clone(), prev_data.clone(), next_data.clone(), step_time, p, n))
        return p.clone(), n.clone()


class _RecordRun:
    def __init__(self, world, desc, ctx):
        self.desc, self.ctx = desc, ctx
        cfg = desc["config"]
        self.cfg = cfg
        self.kind = cfg["kind"]
        self.shape = tuple(cfg["shape"])
        self.dt, self.duration, self.inclusive = cfg["dt"], cfg["duration"], cfg["inclusive"]
        self.writes = 0
        self.last = "init"

    # ---- helpers
    def facts(self, **kw):
        f = {"kind": self.kind, "n": self.m.n, "shape": list(self.shape)}
        f.update(kw)
        return f

    def build(self):
        from inferno import Module, RecordTensor

        cfg = self.cfg
        owner = Module()
        val = _make_storage(self.kind, list(self.shape), cfg["initial"])
        with self.ctx.impl("RecordTensor()"):
            RecordTensor.create(owner, "rec", cfg["dt"], cfg["duration"], val, inclusive=cfg["inclusive"])
        self.owner = owner
        self.rt = owner.rec
        n = size_formula(cfg["dt"], cfg["duration"], cfg["inclusive"])
        init = self.kind in ("f32", "f64", "i64", "param")
        dtype = DT[KIND_DTYPE[self.kind]] if KIND_DTYPE[self.kind] else None
        initial = None
        if init:
            initial = cast_np(torch.tensor(cfg["initial"], dtype=torch.float64), dtype)
        self.m = RecordModel(n, self.shape, init, dtype, initial)

    def check_state(self, where, allow_dtype_change=False):
        """full-state refinement: read(k) == hist[k] for all k; structural invariants."""
        ctx, rt, m = self.ctx, self.rt, self.m
        if rt.recordsz != m.n:
            ctx.fail("recordsz", self.facts(op=where), f"recordsz {rt.recordsz} != model {m.n} after {where}")
        if not m.init:
            if not rt.ignored:
                ctx.fail("init_state", self.facts(op=where), f"storage initialised but model says uninitialised after {where}")
            return
        if rt.ignored:
            ctx.fail("init_state", self.facts(op=where), f"storage uninitialised but model says initialised after {where}")
            return
        v = rt.value
        if tuple(v.shape) != (m.n, *m.shape):
            ctx.fail("storage_shape", self.facts(op=where), f"value.shape {tuple(v.shape)} != {(m.n, *m.shape)} after {where}")
        p = rt.pointer
        if not (0 <= p < m.n):
            ctx.fail("pointer_range", self.facts(op=where, pointer=p), f"pointer {p} outside [0,{m.n}) after {where}")
        if not allow_dtype_change and v.dtype != m.dtype:
            ctx.fail("dtype_changed", self.facts(op=where, have=str(v.dtype), want=str(m.dtype)),
                     f"storage dtype {v.dtype} != {m.dtype} after {where}")
        for k in range(m.n):
            got = to_np(rt.read(k))
            if got.shape != m.hist[k].shape or not np.array_equal(got, m.hist[k]):
                ctx.fail("state_refinement", self.facts(op=where, k=k),
                         f"after {where}: read({k}) = {got.tolist()} but model has {m.hist[k].tolist()}")
        ctx.state((m.n, p, min(self.writes, m.n), self.last, self.kind, True))

    def cmp(self, got, want, oracle, where, **facts):
        ctx = self.ctx
        ctx.judged += 1
        if got is None or not isinstance(got, torch.Tensor):
            ctx.fail(oracle, self.facts(op=where, **facts), f"{where} returned {type(got).__name__}")
            return
        g = to_np(got)
        if g.shape != want.shape:
            ctx.fail(oracle + "_shape", self.facts(op=where, got_shape=list(g.shape), want_shape=list(want.shape), **facts),
                     f"{where} returned shape {g.shape}, expected {want.shape}")
            return
        if not np.array_equal(g, want):
            ctx.fail(oracle, self.facts(op=where, **facts), f"{where} returned {g.tolist()} expected {want.tolist()}")

    def expect_refused(self, where, fn, kinds=(Exception,), check_ptr=True):
        """op that must be refused: raises and leaves state untouched."""
        ctx = self.ctx
        ctx.fault("refused_op")
        ptr_before = self.rt.pointer
        try:
            fn()
        except kinds as e:
            ctx.log("refused", where, type(e).__name__)
        else:
            ctx.fail("not_refused", self.facts(op=where), f"{where} was accepted")
            return
        if check_ptr and self.rt.pointer != ptr_before:
            ctx.fail("refused_side_effect", self.facts(op=where), f"{where} raised but moved the pointer")
        self.check_state(where + "(refused)")

    def off(self, o):
        return torch.tensor(o["t"], dtype=torch.int64) if isinstance(o, dict) else int(o)

    # ---- main loop
    def run(self):
        ctx = self.ctx
        self.build()
        ctx.log("config", self.cfg["dt"], self.cfg["duration"], self.cfg["inclusive"], list(self.shape), self.kind)
        self.check_state("construct")
        for i, op in enumerate(self.desc["ops"]):
            name = op["op"]
            handler = getattr(self, "op_" + name)
            handler(op)
            self.last = name
            ctx.step(1, self.dt)

    # ---------------------------------------------------------------- C01 ops
    def _obs(self, o):
        return _tt(o["v"], o["dtype"])

    def _shape_ok(self, t, extra=0):
        return self.m.init and tuple(t.shape[: t.ndim - extra]) == self.m.shape

    def _scribble(self, obs):
        """aliasing fault: the caller reuses the tensor it handed to the record (every third write); the record keeps what it was given"""
        if self.writes % 3 != 1:
            return
        if obs.dtype == torch.bool:
            obs.copy_(~obs)
        else:
            obs.add_(3)
        self.ctx.fault("caller_overwrites_written_tensor")

    def op_push(self, op, via_latest=False):
        ctx, rt, m = self.ctx, self.rt, self.m
        obs = self._obs(op["obs"])
        inplace = op.get("inplace", False)
        if m.init and tuple(obs.shape) != m.shape:
            return  # (payload generated for another shape; cannot happen for generated runs)
        if not m.init:
            ctx.fault("lazy_init_by_push")
            if m.dtype is None or self.kind == "none":
                # record has no dtype: adopts the observation's
                new_dtype = obs.dtype
                ctx.probe("push_into_none_storage")
                if obs.dtype.is_floating_point:
                    ctx.probe("float_push_into_none_storage")
            else:
                new_dtype = m.dtype
            m.lazy_init(obs.shape, new_dtype)
            self.shape = tuple(obs.shape)
        with ctx.impl("push", self.facts(obs_dtype=str(obs.dtype), inplace=inplace)) as reg:
            if via_latest:
                rt.latest = obs
            else:
                rt.push(obs, inplace=inplace)
        m.push(obs)
        self.writes += 1
        ctx.nontrivial = True
        ctx.log("push", obs, inplace)
        self._scribble(obs)
        if m.n == 1:
            ctx.probe("N==1")
        self.check_state("push", allow_dtype_change=False)

    def op_latest_set(self, op):
        op = dict(op, inplace=False)
        self.op_push(op, via_latest=True)

    def op_latest_del(self, op):
        self.op_decr({"pos": 1}, via_latest=True)

    def op_pop(self, op):
        ctx, rt, m = self.ctx, self.rt, self.m
        with ctx.impl("pop", self.facts()):
            got = rt.pop()
        if not m.init:
            ctx.log("pop", None)
            if got is not None:
                ctx.fail("uninit_read", self.facts(op="pop"), "pop on uninitialised storage returned a value")
            self.check_state("pop")
            return
        m.rotate(-1)
        self.cmp(got, m.read(0), "return_value", "pop")
        ctx.log("pop", got)
        ctx.nontrivial = True
        self.check_state("pop")

    def op_peek(self, op):
        ctx, rt, m = self.ctx, self.rt, self.m
        with ctx.impl("peek", self.facts()):
            got = rt.peek() if not op.get("latest") else rt.latest
        if not m.init:
            if got is not None:
                ctx.fail("uninit_read", self.facts(op="peek"), "peek on uninitialised storage returned a value")
            ctx.log("peek", None)
            return
        self.cmp(got, m.read(1), "return_value", "peek")
        ctx.log("peek", got)

    def op_read(self, op):
        ctx, rt, m = self.ctx, self.rt, self.m
        o = op["offset"]
        if not m.init:
            return self.expect_refused("read", lambda: rt.read(o))
        with ctx.impl("read", self.facts(offset=o)):
            got = rt.read(o)
        self.cmp(got, m.read(o), "return_value", "read", offset=o)
        if o > m.n:
            ctx.probe("offset>N")
        ctx.log("read", o, got)

    def op_write(self, op):
        ctx, rt, m = self.ctx, self.rt, self.m
        obs, o, inplace = self._obs(op["obs"]), op["offset"], op["inplace"]
        if not m.init:
            return self.expect_refused("write", lambda: rt.write(obs, o, inplace=inplace))
        if tuple(obs.shape) != m.shape:
            return
        with ctx.impl("write", self.facts(offset=o, inplace=inplace, obs_dtype=str(obs.dtype))):
            rt.write(obs, o, inplace=inplace)
        m.write(obs, o)
        self.writes += 1
        ctx.nontrivial = True
        ctx.log("write", obs, o, inplace)
        self._scribble(obs)
        self.check_state("write")

    def op_readrange(self, op):
        ctx, rt, m = self.ctx, self.rt, self.m
        L, fwd = op["length"], op["forward"]
        o = self.off(op["offset"])
        if not m.init:
            return self.expect_refused("readrange", lambda: rt.readrange(L, o, forward=fwd))
        if L > m.n or L < 1:
            return
        if isinstance(o, torch.Tensor) and tuple(o.shape) != m.shape:
            return
        tensor_form = isinstance(o, torch.Tensor)
        f = dict(length=L, forward=fwd, tensor_offset=tensor_form, full=(L == m.n))
        with ctx.impl("readrange", self.facts(**f)):
            got = rt.readrange(L, o, forward=fwd)
        want = m.readrange(L, o, fwd)
        self.cmp(got, want, "return_value", "readrange", **f)
        ctx.log("readrange", L, o, fwd, got)
        if L == m.n:
            ctx.probe("length==N")
        # wrap probe: does the (scalar) range wrap the end of storage?
        if not tensor_form:
            o2 = o + (0 if fwd else L - 1)
            start = (rt.pointer - o2) % m.n
            if start + L > m.n:
                ctx.probe("range_wraps_storage_end")
            if o2 > m.n:
                ctx.probe("offset>N")
        else:
            if len(set(np.array(op["offset"]["t"]).reshape(-1).tolist())) > 1:
                ctx.probe("tensor_offset_distinct_elements")
        if op.get("twin") and not tensor_form:
            # scalar and tensor form of the same read agree
            ot = torch.full(m.shape, o, dtype=torch.int64)
            with ctx.impl("readrange", self.facts(length=L, forward=fwd, tensor_offset=True, full=(L == m.n))):
                got2 = rt.readrange(L, ot, forward=fwd)
            ctx.judged += 1
            if got2.shape != got.shape or not torch.equal(got2, got):
                ctx.fail("scalar_tensor_disagree", self.facts(op="readrange", **f),
                         f"readrange scalar offset {o} gave {got.tolist()} tensor offset gave {got2.tolist()}")

    def op_writerange(self, op):
        ctx, rt, m = self.ctx, self.rt, self.m
        obs = self._obs(op["obs"])
        L = obs.shape[-1]
        o, fwd, inplace = self.off(op["offset"]), op["forward"], op["inplace"]
        if not m.init:
            return self.expect_refused("writerange", lambda: rt.writerange(obs, o, forward=fwd, inplace=inplace))
        if L > m.n or tuple(obs.shape[:-1]) != m.shape:
            return
        if isinstance(o, torch.Tensor) and tuple(o.shape) != m.shape:
            return
        tensor_form = isinstance(o, torch.Tensor)
        if not op.get("xdtype"):
            obs = obs.to(m.dtype)   # range writes use the record's dtype unless the op is a cross-dtype write
        else:
            obs = obs.to(torch.float64).floor().to(obs.dtype)  # cross-dtype payloads are integer valued (lossless)
        xdtype = obs.dtype != m.dtype
        f = dict(length=L, forward=fwd, tensor_offset=tensor_form, inplace=inplace, full=(L == m.n), xdtype=xdtype)
        with ctx.impl("writerange", self.facts(**f)) as reg:
            rt.writerange(obs, o, forward=fwd, inplace=inplace)
        if reg.waived:
            return
        m.writerange(obs, o, fwd)
        self.writes += L
        ctx.nontrivial = True
        ctx.log("writerange", obs, o, fwd, inplace)
        self._scribble(obs)
        if L == m.n:
            ctx.probe("writerange_length==N")
        if not tensor_form:
            start = (rt.pointer - (o + (0 if fwd else L - 1))) % m.n
            if start + L > m.n:
                ctx.probe("writerange_wraps_storage_end")
        # non-inplace scalar writes are documented to possibly promote the storage dtype
        promoted_ok = xdtype and not inplace and not tensor_form
        if promoted_ok and rt.value.dtype != m.dtype:
            # payloads are integer valued in this case, so values are unaffected; follow the documented promotion
            m.dtype = rt.value.dtype
            ctx.probe("documented_dtype_promotion")
        self.check_state("writerange")

    def op_incr(self, op):
        ctx, rt, m = self.ctx, self.rt, self.m
        pos = op["pos"]
        if not m.init:
            return self.expect_refused("incr", lambda: rt.incr(pos))
        with ctx.impl("incr", self.facts(pos=pos)):
            got = rt.incr(pos)
        m.rotate(pos)
        ctx.log("incr", pos, got)
        ctx.nontrivial = True
        if got != rt.pointer:
            ctx.fail("return_value", self.facts(op="incr"), f"incr returned {got} but pointer is {rt.pointer}")
        self.check_state("incr")

    def op_decr(self, op, via_latest=False):
        ctx, rt, m = self.ctx, self.rt, self.m
        pos = op["pos"]
        if not m.init:
            if via_latest:
                def f():
                    del rt.latest
                return self.expect_refused("del latest", f)
            return self.expect_refused("decr", lambda: rt.decr(pos))
        with ctx.impl("decr", self.facts(pos=pos)):
            if via_latest:
                del rt.latest
            else:
                rt.decr(pos)
        m.rotate(-pos)
        ctx.log("decr", pos)
        ctx.nontrivial = True
        self.check_state("decr")

    def op_align(self, op):
        ctx, rt, m = self.ctx, self.rt, self.m
        idx = op["index"]
        if idx >= m.n or idx < 0:
            return
        if not m.init:
            return self.expect_refused("align", lambda: rt.align(idx))
        ctx.fault("align_relayout")
        with ctx.impl("align", self.facts(index=idx)):
            rt.align(idx)
        ctx.log("align", idx)
        if rt.pointer != idx:
            ctx.fail("align_pointer", self.facts(op="align"), f"pointer {rt.pointer} after align({idx})")
        self.check_state("align")

    def op_reset(self, op):
        ctx, rt, m = self.ctx, self.rt, self.m
        fill = op["fill"]
        if not m.init:
            if fill is None:
                return self.expect_refused("reset(None)", lambda: rt.reset(None))
            with ctx.impl("reset", self.facts(fill=fill)):
                rt.reset(fill)
            self.check_state("reset")
            return
        ctx.fault("reset")
        with ctx.impl("reset", self.facts(fill=fill)):
            rt.reset(fill)
        if fill is not None:
            m.fill(fill)
            self.writes = 0
        ctx.log("reset", fill)
        if rt.pointer != 0:
            ctx.fail("align_pointer", self.facts(op="reset"), f"pointer {rt.pointer} after reset")
        self.check_state("reset")

    def op_deinit(self, op):
        """storage dropped (documented: device, data type and gradient requirement are kept, the pointer returns to 0); the next push re-creates it"""
        ctx, rt, m = self.ctx, self.rt, self.m
        if not m.init:
            return
        with ctx.impl("deinitialize", self.facts(uninit=op["uninit"])):
            rt.deinitialize(use_uninitialized=op["uninit"])
        ctx.fault("storage_deinitialised")
        m.init = False
        m.hist = []
        self.kind = "deinit"        # a typed, empty placeholder: the next push keeps the record's dtype
        self.writes = 0
        ctx.log("deinit", op["uninit"])
        self.check_state("deinitialize")

    def op_refused(self, op):
        ctx, rt, m = self.ctx, self.rt, self.m
        k = op["kind"]
        if k == "bad_align":
            if op["index"] < m.n:
                return
            return self.expect_refused("align(out of range)", lambda: rt.align(op["index"]))
        if not m.init:
            return
        if k in ("bad_write_shape", "bad_push_shape"):
            obs = self._obs(op["obs"])
            if tuple(obs.shape) == m.shape:
                return
            if k == "bad_write_shape":
                return self.expect_refused("write(bad shape)", lambda: rt.write(obs, 0, inplace=op["inplace"]))
            return self.expect_refused("push(bad shape)", lambda: rt.push(obs, inplace=op["inplace"]))
        if k == "bad_offset_shape":
            o = self.off(op["offset"])
            if tuple(o.shape) == m.shape:
                return
            L = min(op["length"], m.n)
            if op["write"]:
                obs = torch.zeros(*m.shape, L, dtype=m.dtype)
                return self.expect_refused("writerange(bad offset shape)", lambda: rt.writerange(obs, o, inplace=op["inplace"]))
            return self.expect_refused("readrange(bad offset shape)", lambda: rt.readrange(L, o))
        if k == "too_long":
            obs = self._obs(op["obs"]).to(m.dtype)
            if obs.shape[-1] <= m.n or tuple(obs.shape[:-1]) != m.shape:
                return
            return self.expect_refused("writerange(L>N)", lambda: rt.writerange(obs, op["offset"], inplace=op["inplace"]))

    # ---------------------------------------------------------------- C13 ops
    def _resize(self, where, setter):
        ctx, rt, m = self.ctx, self.rt, self.m
        new_n = size_formula(self.dt, self.duration, self.inclusive)
        old_n = m.n
        f = dict(old_n=old_n, new_n=new_n, initialised=m.init, setter=where)
        if m.init and rt.pointer != 0 and new_n != old_n:
            ctx.fault("resize_from_unaligned_pointer")
            if self.writes < old_n:
                ctx.probe("resize_pointer!=0_ring_not_full")
        if not m.init and new_n != old_n:
            ctx.fault("resize_uninitialised")
        with ctx.impl(where, self.facts(**f)) as reg:
            setter()
        if reg.waived:
            # known finding: the setter failed half-way; resynchronise by rebuilding expectations from the object
            self.dt, self.duration, self.inclusive = rt.dt, rt.duration, rt.inclusive
            m.n = rt.recordsz
            return
        m.resize(new_n)
        ctx.nontrivial = True
        ctx.log(where, self.dt, self.duration, self.inclusive, new_n)
        if new_n > old_n:
            ctx.probe("grow")
        elif new_n < old_n:
            ctx.probe("shrink")
        else:
            ctx.probe("resize_noop")
        if (rt.dt, rt.duration, bool(rt.inclusive)) != (self.dt, self.duration, self.inclusive):
            ctx.fail("getter_after_set", self.facts(**f),
                     f"after {where}: dt/duration/inclusive report {(rt.dt, rt.duration, rt.inclusive)} expected {(self.dt, self.duration, self.inclusive)}")
        if rt.recordsz != new_n:
            ctx.fail("size_formula", self.facts(**f), f"recordsz {rt.recordsz} != max(ceil({self.duration}/{self.dt})+{self.inclusive},1) = {new_n}")
        self.check_state(where)

    def op_set_dt(self, op):
        self.dt = op["v"]
        self._resize("set_dt", lambda: setattr(self.rt, "dt", op["v"]))

    def op_set_duration(self, op):
        self.duration = op["v"]
        self._resize("set_duration", lambda: setattr(self.rt, "duration", op["v"]))

    def op_set_inclusive(self, op):
        self.inclusive = op["v"]
        self._resize("set_inclusive", lambda: setattr(self.rt, "inclusive", op["v"]))

    def op_reconstrain(self, op):
        ctx, rt, m = self.ctx, self.rt, self.m
        dim, size = op["dim"], op["size"]
        nd = len(self.shape)
        if dim >= nd or dim < -nd:
            return
        before = rt.constraints
        shape = self.shape
        have = dim in before
        f = dict(dim=dim, size=size, have=have, initialised=m.init)
        if size is None and not have:
            return self.expect_refused("reconstrain(remove unconstrained)", lambda: rt.reconstrain(dim, None), check_ptr=False)
        if size is None:
            with ctx.impl("reconstrain(remove)", self.facts(**f)):
                rt.reconstrain(dim, None)
            ctx.log("reconstrain_remove", dim)
            if dim in rt.constraints:
                ctx.fail("remove_kept", self.facts(**f), "constraint still present after removal")
            self.check_state("reconstrain(remove)")
            return
        if not have:
            # add: accepted iff compatible (or storage ignored); never resizes
            compatible = (not m.init) or shape[dim] == size
            # strict: the same physical dim must not be constrained twice
            clash = any((d % nd) == (dim % nd) for d in before)
            internal = [0] + [d + 1 if d >= 0 else d for d in before] + [dim + 1 if dim >= 0 else dim]
            need = max(max(internal) + 1, 0) - min(min(internal), 0)
            if not m.init and shape[dim] != size:
                return  # would be accepted now and invalidate the tensor at the first push: a user error
            if clash or need > nd + 1:
                # outside what the statement pins down (aliasing constraints on one dim / the documented
                # minimum dimensionality of strict constraints mixing positive and negative dims)
                return
            if compatible:
                with ctx.impl("reconstrain(add)", self.facts(**f)):
                    rt.reconstrain(dim, size)
                ctx.log("reconstrain_add", dim, size)
                if rt.constraints.get(dim) != size:
                    ctx.fail("constraint_not_recorded", self.facts(**f), f"constraints {rt.constraints}")
                self.check_state("reconstrain(add)")
            else:
                ctx.fault("refused_constraint")
                # (a RecordTensor re-aligns its storage before reconstraining: the physical pointer may move,
                #  the logical history checked by check_state may not)
                self.expect_refused("reconstrain(add incompatible)", lambda: rt.reconstrain(dim, size), check_ptr=False)
                if rt.constraints != before:
                    ctx.fail("refused_side_effect", self.facts(**f), f"constraints changed {before}->{rt.constraints}")
            return
        # edit of an existing observation-dim constraint: resizes that dim (outside ring semantics) — only no-op edits
        if shape[dim] != size:
            return   # (also while uninitialised: the edit would be accepted now and contradict the first push - a user error)
        with ctx.impl("reconstrain(edit noop)", self.facts(**f)):
            rt.reconstrain(dim, size)
        ctx.log("reconstrain_edit", dim, size)
        self.check_state("reconstrain(edit)")

    # ---------------------------------------------------------------- C02 ops
    def _classify(self, tvals, tol):
        """per element: ('grid', round_shift) or ('off', ceil, floor, sample_at) or ('reject',)"""
        dt, n = self.dt, self.m.n
        out = []
        limit = dt * (n - 1)
        rejected = False
        for t in tvals:
            if t < -tol or t > limit + tol:
                rejected = True
                out.append(("reject",))
                continue
            s = t / dt
            r = round(s)
            if abs(dt * r - t) <= tol:
                out.append(("grid", int(r)))
            else:
                out.append(("off", math.ceil(s), math.floor(s), dt * (math.ceil(s) - s)))
        return out, rejected

    def _knife(self, tvals, tol, tdtype="float64"):
        """True if any element is too close to a decision boundary to be judged.  The margin covers
        the rounding of a float32 time tensor (half an ulp below 16 is 4.8e-7); exact hits are judged."""
        dt, n = self.dt, self.m.n
        limit = dt * (n - 1)
        base = max(4.9e-7 if tdtype == "float32" else 1e-9, 0.05 * tol)
        for t in tvals:
            # a float32 time carries a rounding error of up to one ulp of its magnitude
            margin = max(base, abs(t) * 1.3e-7) if tdtype == "float32" else base
            s = t / dt
            d = abs(dt * round(s) - t)
            if d != 0.0 and abs(d - tol) < margin:
                return True
            if tdtype == "float32" and d > tol and d < 5e-6:
                return True
            for edge in (-tol, limit + tol):
                if t != edge and abs(t - edge) < margin:
                    return True
        return False

    def _times(self, op):
        td = DT[op["tdtype"]]
        if op["form"] == "scalar":
            return float(op["time"]), [float(op["time"])]
        t = torch.tensor(op["time"], dtype=td)
        return t, [float(x) for x in t.to(torch.float64).reshape(-1).tolist()]

    def _pair(self, name, tc):
        import inferno.functional as F

        kw_i, kw_e = {}, {}
        if name == "previous":
            fi, fe = F.interp_previous, F.extrap_previous
        elif name == "next":
            fi, fe = F.interp_next, F.extrap_next
        elif name == "nearest":
            fi, fe = F.interp_nearest, F.extrap_nearest
        elif name == "linear_fwd":
            fi, fe = F.interp_linear, F.extrap_linear_forward
        elif name == "linear_bwd":
            fi, fe = F.interp_linear, F.extrap_linear_backward
        elif name == "linear_fwd_adj":
            # the documented optional adjustment of the anchoring slot: the round trip holds for any adjustment
            fi, fe, kw_e = F.interp_linear, F.extrap_linear_forward, {"adjust": _adjust}
        elif name == "linear_bwd_adj":
            fi, fe, kw_e = F.interp_linear, F.extrap_linear_backward, {"adjust": _adjust}
        elif name == "expdecay":
            fi, fe = F.interp_expdecay, F.extrap_expdecay
            kw_i = kw_e = {"time_constant": tc}
        else:
            fi, fe = F.interp_expratedecay, F.extrap_expratedecay
            kw_i = kw_e = {"rate_constant": 1.0 / tc}
        return fi, fe, kw_i, kw_e

    def op_select(self, op):
        ctx, rt, m = self.ctx, self.rt, self.m
        if not m.init:
            return
        if not m.dtype.is_floating_point:
            ctx.probe("select_on_integer_storage")
        form = op["form"]
        time, tvals = self._times(op)
        tol, offset = op["tol"], op["offset"]
        if form != "scalar":
            want_shape = m.shape if form == "tensor" else m.shape + (np.array(op["time"]).shape[-1],)
            if tuple(time.shape) != want_shape:
                return
        if self._knife(tvals, tol, op['tdtype'] if form != 'scalar' else 'float64'):
            ctx.undecided += 1
            return
        cls, rejected = self._classify(tvals, tol)
        f = dict(form=form, tol=tol, offset=offset, tdtype=op["tdtype"])
        spy = _SpyInterp()
        if rejected:
            ctx.fault("rejected_time")
            return self.expect_refused("select(out of range)", lambda: rt.select(time, spy, tolerance=tol, offset=offset), kinds=(ValueError,))
        if op.get("mode") == "pair" and m.dtype.is_floating_point:
            self._select_shipped(op, time, tvals, cls, f)
        with ctx.impl("select", self.facts(**f)):
            got = rt.select(time, spy, tolerance=tol, offset=offset)
        ctx.log("select", op["time"], tol, offset, got)
        ctx.nontrivial = True
        S = m.shape
        numel = int(np.prod(S))
        D = 1 if form != "tensorD" else time.shape[-1]
        exp_shape = S if form != "tensorD" else S + (D,)
        ctx.judged += 1
        if tuple(got.shape) != exp_shape:
            ctx.fail("select_shape", self.facts(**f), f"select returned shape {tuple(got.shape)} expected {exp_shape}")
            return
        g = to_np(got).reshape(numel, D)
        # element e (flattened over S), column d
        if form == "scalar":
            cl = cls[0]
            if cl[0] == "grid":
                ctx.probe("select_on_grid")
                if spy.calls:
                    ctx.fail("interp_called_on_grid", self.facts(**f), "scalar on-grid select called the interpolation")
                want = m.read(offset + cl[1])
                self.cmp(got, want, "select_value", "select", **f)
            else:
                ctx.probe("select_off_grid")
                self._check_spy_scalar(spy, cl, offset, got, f)
            return
        if len(spy.calls) != 1:
            ctx.fail("interp_calls", self.facts(**f), f"interpolation called {len(spy.calls)} times")
            return
        prev, nxt, sample_at, step_time, tag = spy.calls[0]
        # spy tensors are laid out (D, *S)
        prev = to_np(prev).reshape(D, numel)
        nxt = to_np(nxt).reshape(D, numel)
        sa = to_np(sample_at).reshape(D, numel) if isinstance(sample_at, torch.Tensor) else None
        tagn = to_np(tag).reshape(D, numel)
        if abs(step_time - self.dt) > 1e-12:
            ctx.fail("interp_step_time", self.facts(**f), f"interp received step_time {step_time}")
        for e in range(numel):
            idx = np.unravel_index(e, S)
            for d in range(D):
                cl = cls[e * D + d]
                if cl[0] == "grid":
                    ctx.probe("select_on_grid")
                    want = m.read(offset + cl[1])[idx]
                    if g[e, d] != want:
                        ctx.fail("select_value", self.facts(elem="grid", **f),
                                 f"select at t={tvals[e * D + d]} (grid shift {cl[1]}, offset {offset}) returned {g[e, d]} expected stored {want}")
                else:
                    ctx.probe("select_off_grid")
                    wp = m.read(offset + cl[1])[idx]
                    wn = m.read(offset + cl[2])[idx]
                    if prev[d, e] != wp or nxt[d, e] != wn:
                        ctx.fail("interp_brackets", self.facts(elem="off", **f),
                                 f"t={tvals[e * D + d]}: interp got prev={prev[d, e]} next={nxt[d, e]}, expected older={wp} newer={wn}")
                    if sa is None or abs(sa[d, e] - cl[3]) > 1e-5 + 1e-4 * abs(cl[3]):
                        ctx.fail("interp_sample_at", self.facts(elem="off", **f),
                                 f"t={tvals[e * D + d]}: interp got sample_at={None if sa is None else sa[d, e]} expected {cl[3]}")
                    if g[e, d] != tagn[d, e]:
                        ctx.fail("interp_result_altered", self.facts(elem="off", **f),
                                 f"select returned {g[e, d]} but interpolation produced {tagn[d, e]}")
        # scalar-time vs tensor-time twin
        if op.get("twin") and form == "tensor" and len(set(tvals)) >= 1:
            t0 = tvals[0]
            spy2, spy3 = _SpyInterp(), _SpyInterp()
            tt = torch.full(S, t0, dtype=DT[op["tdtype"]])
            if self._knife([float(tt.reshape(-1)[0])], tol, op['tdtype']):
                return
            with ctx.impl("select", self.facts(**f)):
                a = rt.select(float(tt.reshape(-1)[0]), spy2, tolerance=tol, offset=offset)
                b = rt.select(tt, spy3, tolerance=tol, offset=offset)
            ctx.judged += 1
            if a.shape != b.shape or not torch.equal(a, b):
                ctx.fail("scalar_tensor_disagree", self.facts(op="select", **f),
                         f"select(t={t0}) scalar gave {a.tolist()} tensor gave {b.tolist()}")

    def _select_shipped(self, op, time, tvals, cls, f):
        """select with a shipped interpolation function returns, element by element, what that same function returns for the
        bracketing samples (no special-casing of the shipped functions inside select)"""
        ctx, rt, m = self.ctx, self.rt, self.m
        name = op["pair"]
        fi, _fe, kw_i, _kw_e = self._pair(name, op["tc"])
        tol, offset, form = op["tol"], op["offset"], op["form"]
        f = dict(f, pair=name, shipped=True)
        S = m.shape
        numel = int(np.prod(S))
        D = 1 if form != "tensorD" else time.shape[-1]
        want = np.zeros((numel, D), dtype=np.float64)
        slack = np.zeros((numel, D), dtype=np.float64)      # sensitivity of the shipped function to the rounding of the elapsed time
        for e in range(numel):
            idx = np.unravel_index(e, S)
            for d in range(D):
                cl = cls[0] if form == "scalar" else cls[e * D + d]
                if cl[0] == "grid":
                    want[e, d] = m.read(offset + cl[1])[idx]
                    continue
                r = cl[3] / self.dt
                if abs(r - 0.5) < 1e-4 and r != 0.5 and name == "nearest":
                    ctx.undecided += 1      # a rounded elapsed time on either side of the half step
                    return
                wp, wn = m.read(offset + cl[1])[idx], m.read(offset + cl[2])[idx]
                dt_ = m.dtype
                out = fi(torch.tensor(wp, dtype=dt_), torch.tensor(wn, dtype=dt_), torch.tensor(cl[3], dtype=torch.float32), self.dt, **kw_i)
                want[e, d] = float(out)
                tt = abs(tvals[0] if form == "scalar" else tvals[e * D + d])
                slack[e, d] = max(abs(wn - wp) / self.dt, abs(wp) / 0.7, abs(wn) / 0.7) * 1e-6 * (tt + self.dt)
        with ctx.impl("select(shipped)", self.facts(**f)):
            got = rt.select(time, fi, tolerance=tol, offset=offset, interp_kwargs=kw_i)
        ctx.probe("select_shipped_" + name)
        ctx.judged += 1
        exp_shape = S if form != "tensorD" else S + (D,)
        if tuple(got.shape) != exp_shape:
            ctx.fail("select_shape", self.facts(**f), f"select returned shape {tuple(got.shape)} expected {exp_shape}")
            return
        g = to_np(got).reshape(numel, D)
        bad = np.abs(g - want) > 1e-5 + 1e-5 * np.abs(want) + slack
        if name in ("previous", "next", "nearest"):
            bad = g != want
        if bad.any():
            e, d = [int(x) for x in np.argwhere(bad)[0]]
            ctx.fail("shipped_interp_result", self.facts(**f), f"select with interp_{name} at t={tvals[0] if form == 'scalar' else tvals[e * D + d]} returned {g[e, d]}, "
                     f"the function itself gives {want[e, d]} for the bracketing samples")

    def _check_spy_scalar(self, spy, cl, offset, got, f):
        ctx, m = self.ctx, self.m
        if len(spy.calls) != 1:
            ctx.fail("interp_calls", self.facts(**f), f"interpolation called {len(spy.calls)} times")
            return
        prev, nxt, sample_at, step_time, tag = spy.calls[0]
        self.cmp(prev, m.read(offset + cl[1]), "interp_brackets", "select(prev)", **f)
        self.cmp(nxt, m.read(offset + cl[2]), "interp_brackets", "select(next)", **f)
        sa = to_np(sample_at) if isinstance(sample_at, torch.Tensor) else np.full(m.shape, float(sample_at))
        if sa.shape != m.shape or np.any(np.abs(sa - cl[3]) > 1e-5 + 1e-4 * abs(cl[3])):
            ctx.fail("interp_sample_at", self.facts(**f), f"interp got sample_at {sa.tolist()} expected {cl[3]}")
        if abs(step_time - self.dt) > 1e-12:
            ctx.fail("interp_step_time", self.facts(**f), f"interp received step_time {step_time}")
        if not torch.equal(got, tag):
            ctx.fail("interp_result_altered", self.facts(**f), "select did not return the interpolation result unmodified")

    def op_insert(self, op):
        ctx, rt, m = self.ctx, self.rt, self.m
        if not m.init or not m.dtype.is_floating_point:
            return
        form = op["form"]
        time, tvals = self._times(op)
        tol, offset, inplace = op["tol"], op["offset"], op["inplace"]
        obs = self._obs(op["obs"]).to(m.dtype)
        if tuple(obs.shape) != m.shape:
            return
        if form != "scalar" and tuple(time.shape) != m.shape:
            return
        if self._knife(tvals, tol, op['tdtype'] if form != 'scalar' else 'float64'):
            ctx.undecided += 1
            return
        cls, rejected = self._classify(tvals, tol)
        f = dict(form=form, tol=tol, offset=offset, inplace=inplace, tdtype=op["tdtype"], mode=op["mode"])
        S = m.shape
        numel = int(np.prod(S))
        if rejected:
            ctx.fault("rejected_time")
            spy = _SpyExtrap()
            return self.expect_refused("insert(out of range)", lambda: rt.insert(obs, time, spy, tolerance=tol, offset=offset, inplace=inplace), kinds=(ValueError,))
        if form == "scalar":
            cls = cls * numel
        if op["mode"] == "pair":
            return self._insert_roundtrip(op, obs, time, tvals, cls, f)
        spy = _SpyExtrap()
        before = [h.copy() for h in m.hist]
        with ctx.impl("insert", self.facts(**f)):
            rt.insert(obs, time, spy, tolerance=tol, offset=offset, inplace=inplace)
        ctx.log("insert", op["time"], obs, tol, offset, inplace)
        ctx.nontrivial = True
        obsn = to_np(obs)
        any_off = any(c[0] == "off" for c in cls)
        if form == "scalar" and not any_off and spy.calls:
            ctx.fail("extrap_called_on_grid", self.facts(**f), "scalar on-grid insert called the extrapolation")
        if (any_off or form != "scalar") and len(spy.calls) != 1:
            ctx.fail("extrap_calls", self.facts(**f), f"extrapolation called {len(spy.calls)} times")
            return
        if spy.calls:
            sample, sample_at, prev, nxt, step_time, ptag, ntag = spy.calls[0]
            sample, sample_at, prev, nxt = (to_np(x).reshape(numel) for x in (sample, sample_at, prev, nxt))
            ptag, ntag = to_np(ptag).reshape(numel), to_np(ntag).reshape(numel)
            if abs(step_time - self.dt) > 1e-12:
                ctx.fail("interp_step_time", self.facts(**f), f"extrap received step_time {step_time}")
        # expected new history
        new = [h.copy() for h in before]
        for e in range(numel):
            idx = np.unravel_index(e, S)
            cl = cls[e]
            if cl[0] == "grid":
                ctx.probe("insert_on_grid")
                new[(offset + cl[1]) % m.n][idx] = obsn[idx]
            else:
                ctx.probe("insert_off_grid")
                wp = before[(offset + cl[1]) % m.n][idx]
                wn = before[(offset + cl[2]) % m.n][idx]
                if sample[e] != obsn[idx]:
                    ctx.fail("extrap_sample", self.facts(**f), f"extrap got sample {sample[e]} expected {obsn[idx]}")
                if prev[e] != wp or nxt[e] != wn:
                    ctx.fail("interp_brackets", self.facts(elem="off", **f),
                             f"t={tvals[e if form != 'scalar' else 0]}: extrap got prev={prev[e]} next={nxt[e]}, expected older={wp} newer={wn}")
                if abs(sample_at[e] - cl[3]) > 1e-5 + 1e-4 * abs(cl[3]):
                    ctx.fail("interp_sample_at", self.facts(elem="off", **f), f"extrap got sample_at={sample_at[e]} expected {cl[3]}")
                # older slot first, then newer slot (for N==1 both are the same slot: the newer write wins)
                new[(offset + cl[1]) % m.n][idx] = float(np.float64(torch.tensor(ptag[e]).to(m.dtype)))
                new[(offset + cl[2]) % m.n][idx] = float(np.float64(torch.tensor(ntag[e]).to(m.dtype)))
        m.hist = new
        if m.n == 1 and any_off:
            pass
        self.writes += 1
        self.check_state("insert")

    def _insert_roundtrip(self, op, obs, time, tvals, cls, f):
        """insert(x,t) then select(t) with the matching shipped pair returns x."""
        ctx, rt, m = self.ctx, self.rt, self.m
        name = op["pair"]
        fi, fe, kw_i, kw_e = self._pair(name, op["tc"])
        tol, offset, inplace = op["tol"], op["offset"], op["inplace"]
        f = dict(f, pair=name)
        # nearest: skip the exact half step; linear: needs sample_at away from 0 / dt (guaranteed by off-grid margin)
        for c in cls:
            # the shipped linear / exponential pairs are ill-conditioned when the sample sits almost on a grid
            # point (division by the elapsed time): round trips are judged only clearly between grid points
            if c[0] == "off" and not (0.05 <= c[3] / self.dt <= 0.95):
                ctx.undecided += 1
                return
        if name == "nearest":
            for c in cls:
                if c[0] == "off" and abs(c[3] / self.dt - 0.5) < 0.02:
                    ctx.undecided += 1
                    return
        if m.n == 1:
            pass
        S = m.shape
        before = [h.copy() for h in m.hist]
        with ctx.impl("insert(pair)", self.facts(**f)):
            rt.insert(obs, time, fe, tolerance=tol, offset=offset, inplace=inplace, extrap_kwargs=kw_e)
        # select uses offset relative to the same pointer: select's offset counts the same way
        with ctx.impl("select(pair)", self.facts(**f)):
            back = rt.select(time, fi, tolerance=tol, offset=offset, interp_kwargs=kw_i)
        ctx.log("roundtrip", name, op["time"], obs, back)
        ctx.nontrivial = True
        ctx.probe("roundtrip_" + name)
        ctx.judged += 1
        b, o = to_np(back), to_np(obs)
        if b.shape != o.shape:
            ctx.fail("roundtrip_shape", self.facts(**f), f"select after insert returned shape {b.shape}")
        # last term: the extrapolated bracket values can be orders of magnitude larger than the sample (float32 cancellation in next - prev)
        elif np.any(np.abs(b - o) > 1e-4 + 1e-4 * np.abs(o) + 1e-6 * float(rt.value.detach().abs().max())):
            ctx.fail("roundtrip", self.facts(**f), f"insert({o.tolist()}, t={op['time']}) then select returned {b.tolist()}")
        # other slots untouched: every slot not bracketing an element keeps its value
        numel = int(np.prod(S))
        touched = np.zeros((m.n,) + S, dtype=bool)
        for e in range(numel):
            idx = np.unravel_index(e, S)
            cl = cls[e]
            if cl[0] == "grid":
                touched[((offset + cl[1]) % m.n,) + idx] = True
            else:
                touched[((offset + cl[1]) % m.n,) + idx] = True
                touched[((offset + cl[2]) % m.n,) + idx] = True
        for k in range(m.n):
            got = to_np(rt.read(k))
            keep = ~touched[k]
            if not np.array_equal(got[keep], before[k][keep]):
                ctx.fail("insert_touched_other_slot", self.facts(k=k, **f), f"slot {k} changed by insert at t={op['time']}")
            # adopt the implementation's values for the touched entries (their values are pair specific)
            newk = before[k].copy()
            newk[touched[k]] = got[touched[k]]
            m.hist[k] = newk
        self.writes += 1
        self.check_state("insert(pair)")


WORLD = RecordWorld()
