"""checkpoint_world (C12): crash at every step k, only serialised state survives, restart into a fresh-warm or dirty
instance, and the future must be bit-identical to the uninterrupted run.

"Disk" is an in-memory byte buffer written by torch.save; on a crash every Python object of the run is dropped and
a new system is built from the same configuration by the same factory.  No storage faults are injected (no
property speaks of torn or corrupted checkpoints).
"""
from __future__ import annotations

import hashlib
import io

import numpy as np
import torch

from ..kernel import World, stream
from ..models.synapse import synapse_ctor

DTS = [1.0, 0.5, 0.25, 2.0, 0.1, 1.3]
TRAINERS = [None, None, "STDP", "STDP_delayed", "TripletSTDP", "MSTDPET", "MSTDP", "KernelSTDP", "DelayAdjustedSTDP", "DelayAdjustedSTDPD", "LinearHomeostasis"]
NEURONS = ["LIF", "ALIF", "GLIF2", "Izhikevich", "AdEx", "QIF"]


def _wgen(seed, shape, lo=-2, hi=13):
    g = torch.Generator().manual_seed(seed)
    return torch.randint(lo, hi, tuple(shape), generator=g).float() / 8.0


class _System:
    """everything that holds state in one run; built only by the factory"""

    def __init__(self, cfg):
        from inferno import learn, observe
        from inferno import neural as nn_
        import inferno.functional as IF

        self.cfg = cfg
        dt, B, ws = cfg["dt"], cfg["B"], cfg["wseed"]
        inplace = cfg["inplace"]

        def conn(i, nin, nout, kind="dense"):
            c = cfg["conns"][i]
            syn = synapse_ctor(c["skind"], {"Q": 40.0, "tau": c["tau"], "tau_r": 0.5}, inplace=inplace)
            delay = None if c["delay_k"] is None else c["delay_k"] * dt
            kw = dict(synapse=syn, bias=c["bias"], delay=delay, batch_size=B, weight_init=lambda x: _wgen(ws + 11 * i, x.shape),
                      bias_init=lambda x: _wgen(ws + 11 * i + 1, x.shape) * 4.0)
            if delay is not None:
                kw["delay_init"] = lambda x: torch.randint(0, c["delay_k"] + 1, tuple(x.shape), generator=torch.Generator().manual_seed(ws + 11 * i + 2)).float() * dt
            late = cfg.get("via_setters") and delay is not None
            if late:
                # the documented route: built with a maximum delay of 0 ("registers the delay parameter"), widened through the synapse's setter
                init = kw.pop("delay_init")
                kw["delay"] = 0.0
            if kind == "conv":
                out = nn_.Conv2D(3, 3, 1, 2, dt, 2, **kw)
            elif kind == "direct":
                out = nn_.LinearDirect((nin,), dt, **kw)
            elif kind == "lateral":
                out = nn_.LinearLateral((nin,), dt, **kw)
            else:
                out = nn_.LinearDense((nin,), (nout,), dt, **kw)
            if late:
                out.synapse.delay = delay
                out.delay = init(out.delay)
            return out

        def neuron(j, shape):
            k = cfg["neurons"][j]
            common = dict(batch_size=B)
            if k == "LIF":
                return nn_.LIF(shape, dt, rest_v=-60.0, reset_v=-65.0, thresh_v=-50.0, refrac_t=2 * dt, time_constant=8.0, **common)
            if k == "ALIF":
                return nn_.ALIF(shape, dt, rest_v=-60.0, reset_v=-65.0, thresh_eq_v=-50.0, refrac_t=dt, tc_membrane=8.0, tc_adaptation=(20.0, 40.0), spike_increment=(1.0, 0.5), **common)
            if k == "GLIF2":
                return nn_.GLIF2(shape, dt, rest_v=-60.0, reset_v_add=2.0, reset_v_mul=0.2, thresh_eq_v=-50.0, refrac_t=dt, tc_membrane=8.0, rc_adaptation=0.05, spike_increment=1.0, **common)
            if k == "Izhikevich":
                return nn_.Izhikevich(shape, dt, rest_v=-60.0, crit_v=-55.0, affinity=0.04, reset_v=-65.0, thresh_v=-50.0, refrac_t=dt, tc_membrane=4.0, tc_adaptation=30.0,
                                      voltage_coupling=0.2, spike_increment=2.0, **common)
            if k == "AdEx":
                return nn_.AdEx(shape, dt, rest_v=-60.0, rheobase_v=-55.0, sharpness=2.0, reset_v=-65.0, thresh_v=-50.0, refrac_t=dt, tc_membrane=6.0, tc_adaptation=30.0,
                                voltage_coupling=0.1, spike_increment=1.0, **common)
            return nn_.QIF(shape, dt, rest_v=-60.0, crit_v=-55.0, affinity=0.04, reset_v=-65.0, thresh_v=-50.0, refrac_t=2 * dt, time_constant=4.0, **common)

        kind = cfg["kind"]
        n0 = cfg["width"]
        if kind == "serial":
            ck = cfg["ckind"]
            if ck == "conv":
                self.conns = [conn(0, 0, 0, "conv")]
                shape0 = (2, 2, 2)
                self.inshape = [(1, 3, 3)]
            elif ck in ("direct", "lateral"):
                self.conns = [conn(0, n0, n0, ck)]
                shape0 = (n0,)
                self.inshape = [(n0,)]
            else:
                self.conns = [conn(0, cfg["nin"], n0)]
                shape0 = (n0,)
                self.inshape = [(cfg["nin"],)]
            self.neurons = [neuron(0, shape0)]
            self.layer = nn_.Serial(self.conns[0], self.neurons[0])
            self.cell = self.layer.cell
        elif kind == "biclique":
            self.conns = [conn(0, cfg["nin"], n0), conn(1, cfg["nin"] + 1, n0)]
            self.neurons = [neuron(0, (n0,)), neuron(1, (n0,))]
            self.inshape = [(cfg["nin"],), (cfg["nin"] + 1,)]
            self.layer = nn_.Biclique([("c0", self.conns[0]), ("c1", self.conns[1])], [("n0", self.neurons[0]), ("n1", self.neurons[1])], cfg["combine"])
            self.cell = self.layer.get_cell("c0", "n1")
        else:
            self.conns = [conn(0, cfg["nin"], n0), conn(1, n0, n0, "lateral" if cfg["lateral"] else "dense"), conn(2, n0, n0)]
            self.neurons = [neuron(0, (n0,)), neuron(1, (n0,))]
            self.inshape = [(cfg["nin"],)]
            self.layer = nn_.RecurrentSerial(self.conns[0], self.conns[1], self.conns[2], self.neurons[0], self.neurons[1], trainable_feedback=True)
            self.cell = self.layer.feedfwd_cell
        for c in self.conns:
            c.updater = c.defaultupdater()
        self.layer.train()
        # trainer
        self.trainer = None
        t = cfg["trainer"]
        tcon = self.cell.connection
        if t is not None:
            if t == "STDP":
                self.trainer = learn.STDP(0.05, -0.03, 10.0, 8.0, trace_mode=cfg["trace"])
            elif t == "STDP_delayed":
                self.trainer = learn.STDP(0.05, -0.03, 10.0, 8.0, delayed=True, trace_mode=cfg["trace"])
            elif t == "TripletSTDP":
                self.trainer = learn.TripletSTDP(0.05, 0.02, -0.03, 0.01, 8.0, 30.0, 6.0, 25.0, delayed=(tcon.delayedby is not None and cfg["tdelayed"]), trace_mode=cfg["trace"], inplace=inplace)
            elif t == "MSTDPET":
                self.trainer = learn.MSTDPET(0.05, -0.03, 10.0, 8.0, 15.0, trace_mode=cfg["trace"])
            elif t == "MSTDP":
                self.trainer = learn.MSTDP(0.05, -0.03, 10.0, 8.0, delayed=cfg["tdelayed"], trace_mode=cfg["trace"])
            elif t == "KernelSTDP":
                self.trainer = learn.KernelSTDP(IF.exp_stdp_post_kernel, IF.exp_stdp_pre_kernel, dict(learning_rate=0.05, time_constant=10.0), dict(learning_rate=-0.03, time_constant=8.0),
                                                delayed=cfg["tdelayed"], inplace=inplace)
            elif t == "DelayAdjustedSTDP":
                self.trainer = learn.DelayAdjustedSTDP(0.05, -0.03, 10.0, 8.0, inplace=inplace)
            elif t == "DelayAdjustedSTDPD":
                self.trainer = learn.DelayAdjustedSTDPD(-0.02 * dt, 0.02 * dt, 10.0, 8.0, inplace=inplace)
            elif t == "LinearHomeostasis":
                self.trainer = learn.LinearHomeostasis(0.02, 0.3, "weight")
            self.trainer.register_cell("cell", self.cell)
            self.trainer.train()
        # stand-alone monitors on the first neuron group
        self.monitors = []
        for mk in cfg["monitors"]:
            if mk in ("v_pass", "v_ema", "v_ca"):
                # undelayed reducers fed the neuron's own persistent float state (their first fold returns the observation itself)
                red = {"v_pass": lambda: observe.PassthroughReducer(dt, duration=0.0, inplace=inplace), "v_ema": lambda: observe.EMAReducer(dt, 0.3, duration=0.0, inplace=inplace),
                       "v_ca": lambda: observe.CAReducer(dt, duration=0.0, inplace=inplace)}[mk]()
                self.monitors.append(observe.StateMonitor(red, "voltage", self.neurons[0]))
                continue
            if mk == "ema":
                red = observe.EMAReducer(dt, 0.3, duration=2 * dt, inplace=inplace)
            elif mk == "ca":
                red = observe.CAReducer(dt, duration=0.0, inplace=inplace)
            elif mk == "event":
                red = observe.EventReducer(dt, lambda x: x.bool(), "inf", duration=3 * dt, inplace=inplace)
            else:
                red = observe.CumulativeTraceReducer(dt, 12.0, 1.0, True, duration=dt, inplace=inplace)
            if cfg.get("via_setters") and red.duration > 0:
                d = red.duration
                red = type(red).__new__(type(red))      # same reducer, constructed single-slot and widened through the duration setter
                if mk == "ema":
                    observe.EMAReducer.__init__(red, dt, 0.3, duration=0.0, inplace=inplace)
                elif mk == "event":
                    observe.EventReducer.__init__(red, dt, lambda x: x.bool(), "inf", duration=0.0, inplace=inplace)
                else:
                    observe.CumulativeTraceReducer.__init__(red, dt, 12.0, 1.0, True, duration=0.0, inplace=inplace)
                red.duration = d
            self.monitors.append(observe.OutputMonitor(red, self.neurons[0]))
        self.classifier = learn.MaxRateClassifier(tuple(self.neurons[0].shape), 3, decay=0.05) if cfg["classifier"] else None

    # ---- pieces with state dictionaries
    def pieces(self):
        out = [("layer", self.layer)]
        if self.trainer is not None:
            out.append(("trainer", self.trainer))
        for i, m in enumerate(self.monitors):
            out.append((f"monitor{i}", m))
        if self.classifier is not None:
            out.append(("classifier", self.classifier))
        return out

    def step(self, op):
        """one simulation step (layer forward, trainer, update, classifier); returns the observable outputs"""
        cfg = self.cfg
        B = cfg["B"]
        xs = [torch.tensor(x).reshape((B,) + s).bool() for x, s in zip(op["x"], self.inshape)]
        if cfg["kind"] == "serial":
            outs = [self.layer(xs[0])]
        elif cfg["kind"] == "biclique":
            r = self.layer({"c0": (xs[0],), "c1": (xs[1],)})
            outs = [r["n0"], r["n1"]]
        else:
            outs = list(self.layer(xs[0]))
        res = [o.clone() for o in outs]
        if self.trainer is not None:
            if cfg["trainer"] in ("MSTDPET", "MSTDP"):
                self.trainer(float(op["signal"]))
            else:
                self.trainer()
            self.layer.update()
            if cfg["trainer"] == "DelayAdjustedSTDPD":
                c = self.cell.connection
                c.delay = c.delay.detach().clamp(0, c.delayedby)
        if self.classifier is not None:
            labels = torch.tensor(op["labels"], dtype=torch.int64)
            pred, logits = self.classifier(outs[0].float(), labels, logits=True)
            res += [pred.clone(), logits.clone()]
        if op.get("clear"):
            # recorders cleared in place at the end of the step (shapes kept): the checkpoint taken at this boundary
            # must restore "nothing observed yet" into a target whose recorders have already observed
            if self.trainer is not None:
                self.trainer.clear(keepshape=True)
            for m in self.monitors:
                m.clear(keepshape=True)
        return res

    def _model(self):
        """the user's 'model': one parent module holding the layer, the stand-alone monitors and the classifier
        (trainers are checkpointed separately: 'the state dictionaries of a model and its trainers')"""
        import torch.nn as nn

        return nn.ModuleDict({name: m for name, m in self.pieces() if name != "trainer"})

    def save(self) -> bytes:
        buf = io.BytesIO()
        if self.cfg.get("container"):
            sd = {"model": self._model().state_dict()}
            if self.trainer is not None:
                sd["trainer"] = self.trainer.state_dict()
        else:
            sd = {name: m.state_dict() for name, m in self.pieces()}
        torch.save(sd, buf)
        return buf.getvalue()

    def load(self, blob: bytes):
        sd = torch.load(io.BytesIO(blob), weights_only=False)
        if self.cfg.get("container"):
            self._model().load_state_dict(sd["model"])
            if self.trainer is not None:
                self.trainer.load_state_dict(sd["trainer"])
        else:
            for name, m in self.pieces():
                m.load_state_dict(sd[name])

    def digest(self):
        """per-entry digests of every piece of persistent and derived state"""
        out = {}
        for name, m in self.pieces():
            for k, v in m.state_dict().items():
                out[f"{name}.{k}"] = _dig(v)
        if self.classifier is not None:
            for a in ("assignments", "occurrences", "proportions"):
                out[f"classifier.derived.{a}"] = _dig(getattr(self.classifier, a))
        for j, n in enumerate(self.neurons):
            out[f"neuron{j}.voltage"] = _dig(n.voltage)
            out[f"neuron{j}.refrac"] = _dig(n.refrac)
        for i, c in enumerate(self.conns):
            out[f"conn{i}.current"] = _dig(c.synapse.current)
            out[f"conn{i}.weight"] = _dig(c.weight)
        return out


def _dig(v):
    if isinstance(v, torch.Tensor):
        t = v.detach()
        if t.dtype == torch.bool:
            t = t.to(torch.uint8)
        return hashlib.sha1(str(v.dtype).encode() + str(tuple(v.shape)).encode() + t.contiguous().cpu().numpy().tobytes()).hexdigest()[:16]
    if hasattr(v, "items"):
        return repr(sorted((str(k), repr(x)) for k, x in v.items()))
    return repr(v)


class CheckpointWorld(World):
    name = "checkpoint_world"
    real = ["state_dict / load_state_dict / get_extra_state / set_extra_state of inferno.Module", "RecordTensor data + pointer extras", "layers, connections, synapses, neurons",
            "trainers with their monitor pools and reducers", "stand-alone OutputMonitors with EMA/CA/Event/trace reducers and StateMonitors on the neuron voltage with undelayed pass-through/EMA/CA reducers", "MaxRateClassifier (post-load hook)", "torch.save / torch.load through an in-memory byte buffer (the 'disk')"]
    stub = []
    state_measure = "distinct (layer kind, connection kinds, neuron kinds, trainer, monitors, classifier, inplace, crash point k, target kind)"
    rule = ("each run = one swarm-composed system (layer x connections x synapses x neurons x optional trainer x stand-alone monitors x classifier) driven for T steps; "
            "for EVERY k in [0, T] the state is serialised, a new system is built by the factory (fresh for k = 0, otherwise warmed by one step or dirtied by j steps on other data), "
            "loaded, and continued to T; non-trivial = some output spike and a crash point with a non-zero ring pointer; distinct = distinct event-log digests")

    def generate(self, seed, prop, tier):
        rc, ro = stream(seed, "config"), stream(seed, "ops")
        kind = rc.choice(["serial", "serial", "biclique", "recurrent"])
        cfg = {"kind": kind, "dt": rc.choice(DTS), "B": rc.choice([1, 1, 2]), "wseed": rc.randrange(1 << 30), "inplace": rc.random() < 0.5,
               "width": rc.choice([2, 3]), "nin": rc.choice([2, 3]), "trace": rc.choice(["cumulative", "nearest"]), "tdelayed": rc.random() < 0.5,
               "combine": rc.choice(["sum", "mean", "max"]), "lateral": rc.random() < 0.5,
               "monitors": rc.choice([[], [], ["ema"], ["ca"], ["event"], ["trace", "ema"], ["v_pass"], ["v_ema", "v_ca"]]), "classifier": rc.random() < 0.3, "container": rc.random() < 0.5, "via_setters": stream(seed, "via").random() < 0.3}
        nconn = {"serial": 1, "biclique": 2, "recurrent": 3}[kind]
        cfg["conns"] = [{"skind": rc.choice(["delta", "deltaplus", "exp", "dexp"]), "delay_k": rc.choice([None, None, 1, 3]), "bias": rc.random() < 0.5, "tau": rc.choice([2.0, 5.0])}
                        for _ in range(nconn)]
        cfg["ckind"] = rc.choice(["dense", "dense", "direct", "lateral", "conv"]) if kind == "serial" else "dense"
        cfg["neurons"] = [rc.choice(NEURONS) for _ in range(2)]
        t = rc.choice(TRAINERS)
        if t in ("DelayAdjustedSTDP", "DelayAdjustedSTDPD", "STDP_delayed") and cfg["conns"][0]["delay_k"] is None:
            cfg["conns"][0]["delay_k"] = rc.choice([1, 3])
        if kind == "biclique" and t in ("DelayAdjustedSTDP", "DelayAdjustedSTDPD", "STDP_delayed"):
            cfg["conns"][0]["delay_k"] = cfg["conns"][0]["delay_k"] or 2
        if kind == "serial" and cfg["ckind"] == "conv":
            cfg["classifier"] = False
        cfg["trainer"] = t
        T = ro.randint(6, 24 if tier == "thorough" else 12)
        insz = {"serial": [9 if cfg["ckind"] == "conv" else (cfg["width"] if cfg["ckind"] in ("direct", "lateral") else cfg["nin"])],
                "biclique": [cfg["nin"], cfg["nin"] + 1], "recurrent": [cfg["nin"]]}[kind]

        def mkstep():
            p = ro.choice([0.3, 0.6, 0.9])
            return {"x": [[1 if ro.random() < p else 0 for _ in range(cfg["B"] * n)] for n in insz], "signal": ro.choice([1.0, -1.0, 0.5]),
                    "labels": [ro.randrange(3) for _ in range(cfg["B"])]}
        ops = [mkstep() for _ in range(T)]
        for o in ops[1:]:
            if ro.random() < 0.12:
                o["clear"] = True
        cfg["other"] = [mkstep() for _ in range(4)]        # unrelated data to warm / dirty the restore target
        cfg["dirty_j"] = ro.randint(2, 4)
        cfg["double_crash"] = ro.random() < 0.3
        return {"config": cfg, "ops": ops}

    def execute(self, desc, ctx):
        cfg = desc["config"]
        facts = {"kind": cfg["kind"], "trainer": cfg["trainer"], "neurons": "/".join(cfg["neurons"][: 1 if cfg["kind"] == "serial" else 2]), "ckind": cfg["ckind"],
                 "inplace": cfg["inplace"], "monitors": ",".join(cfg["monitors"]), "classifier": cfg["classifier"], "container": bool(cfg.get("container")), "via_setters": bool(cfg.get("via_setters")),
                 "delays": [c["delay_k"] for c in cfg["conns"]], "syn": [c["skind"] for c in cfg["conns"]]}
        ops = desc["ops"]
        T = len(ops)
        ctx.log("config", facts)
        # ---------------- uninterrupted reference run
        with ctx.impl("reference run", facts) as reg:
            ref = _System(cfg)
            blobs = [ref.save()]
            outs_ref, dig_ref = [], []
            for op in ops:
                outs_ref.append(ref.step(op))
                dig_ref.append(ref.digest())
                blobs.append(ref.save())
        if reg.waived:
            return
        ctx.step(T, cfg["dt"])
        ctx.log("reference", [o for step in outs_ref for o in step])
        spiked = any(bool(o.any()) for step in outs_ref for o in step[:1])
        ptr_nonzero = False
        del ref
        # ---------------- crash at every k
        ks = list(range(0, T + 1))
        for k in ks:
            target_kind = "fresh" if k == 0 else ("warm" if (k % 2 == 1) else "dirty")
            f = dict(facts, k=k, target=target_kind)
            ctx.fault("crash_restart")
            with ctx.impl("restore", f) as reg:
                tgt = _System(cfg)
                if target_kind == "warm":
                    tgt.step(cfg["other"][0])
                elif target_kind == "dirty":
                    for j in range(cfg["dirty_j"]):
                        tgt.step(cfg["other"][j % len(cfg["other"])])
                tgt.load(blobs[k])
            if reg.waived:
                continue
            if k > 0:
                d0 = tgt.digest()
                bad = [key for key in dig_ref[k - 1] if d0.get(key) != dig_ref[k - 1][key]]
                ctx.judged += 1
                if bad:
                    ctx.fail("state_after_load", dict(f, key=_short(bad[0])), f"crash at step {k} ({target_kind} target): after load_state_dict {len(bad)} state entries differ from the checkpointed run, first: {bad[0]}")
                for _n, _m in tgt.pieces():
                    for _k, _v in _m.state_dict().items():
                        if hasattr(_v, "items") and any(str(kk).endswith("_pointer") and vv != 0 for kk, vv in _v.items()):
                            ptr_nonzero = True
            k2 = None
            if cfg["double_crash"] and k + 2 < T and k % 3 == 0:
                k2 = k + 2
            for t in range(k, T):
                with ctx.impl("continue after restore", dict(f, step=t)) as reg:
                    o = tgt.step(ops[t])
                if reg.waived:
                    break
                ctx.judged += 1
                for a, b in zip(o, outs_ref[t]):
                    if a.shape != b.shape or not torch.equal(a, b):
                        ctx.fail("future_output", dict(f, step=t), f"crash at step {k} ({target_kind} target): output of step {t} differs from the uninterrupted run")
                d = tgt.digest()
                bad = [key for key in dig_ref[t] if d.get(key) != dig_ref[t][key]]
                if bad:
                    ctx.fail("future_state", dict(f, step=t, key=_short(bad[0])), f"crash at step {k} ({target_kind} target): after step {t} {len(bad)} state entries differ, first: {bad[0]}")
                if k2 is not None and t + 1 == k2:
                    # second crash: save from the restored system, restart again
                    ctx.fault("double_crash")
                    with ctx.impl("second restore", f) as reg:
                        blob2 = tgt.save()
                        tgt = _System(cfg)
                        tgt.step(cfg["other"][1])
                        tgt.load(blob2)
                    if reg.waived:
                        break
            ctx.state((cfg["kind"], cfg["trainer"], cfg["ckind"], tuple(cfg["neurons"]), tuple(cfg["monitors"]), cfg["classifier"], cfg["inplace"], min(k, 6), target_kind))
            ctx.log("crash", k, target_kind)
            del tgt
        if ptr_nonzero:
            ctx.probe("checkpoint_with_pointer!=0")
        if any(c["delay_k"] for c in cfg["conns"]):
            ctx.probe("delayed_history_in_checkpoint")
        if cfg["classifier"]:
            ctx.probe("classifier_buffers_recomputed_on_load")
        ctx.nontrivial = spiked


def _short(key):
    parts = key.split(".")
    return ".".join(parts[-2:])


WORLD = CheckpointWorld()
