"""synapse_world (C04): the four synapse classes under seeded spike trains with clear() faults.

History oracle: current == sum over the recorded input events of the documented kernel (float64).
Past-read oracle: current_at / spike_at against the recorded history (what the synapse itself reported
k steps ago), the documented interpolation rule between steps, and the overbound rule beyond the
supported delay.  An in-place twin driven identically must stay bit-identical.
"""
from __future__ import annotations

import math

import numpy as np
import torch

from ..kernel import World, stream, scribble
from ..models.record import size_formula

DTS = [1.0, 0.5, 0.25, 2.0, 0.1, 1.3]
DYADIC = {1.0, 0.5, 0.25, 2.0}
KINDS = ["delta", "deltaplus", "exp", "dexp"]


def classify(t, dt, tol, f32=True):
    """('on', k) | ('off', older, newer, elapsed) | ('knife', k, older, newer, elapsed)"""
    s = t / dt
    r = round(s)
    d = abs(dt * r - t)
    margin = max(4.9e-7, abs(t) * 1.3e-7) if f32 else 1e-9
    older, newer = math.ceil(s), math.floor(s)
    el = dt * (older - s)
    if d == 0.0 or d <= tol - margin:
        return ("on", int(r))
    if d > tol + margin and d > 5e-6:
        return ("off", older, newer, el)
    return ("knife", int(r), older, newer, el)


class SynapseWorld(World):
    name = "synapse_world"
    real = ["inferno.neural DeltaCurrent, DeltaPlusCurrent, SingleExponentialCurrent, DoubleExponentialCurrent (forward, clear, current/spike, current_at/spike_at)"]
    stub = []
    state_measure = "distinct (class, N, steps since clear capped at N+1, interp mode, overbound kinds, tolerance class)"
    rule = ("each run = one synapse configuration (class, dt, max delay, interpolation mode, tolerance, overbound values, in-place twin) + seeded steps "
            "(spike tensors, injected currents), delayed queries with per-element selectors on/off the grid and beyond the range, and clear() faults; "
            "non-trivial = at least two steps with a spike and one delayed query; distinct = distinct event-log digests")

    def generate(self, seed, prop, tier):
        rc, ro = stream(seed, "config"), stream(seed, "ops")
        kind = rc.choice(KINDS)
        dt = rc.choice(DTS)
        dk = rc.choice([0, 0, 1, 3, 3, 4.5, 6, 0.5])
        tol = rc.choice([0.0, 0.0, 1e-6, 1e-3])
        cfg = {"kind": kind, "dt": dt, "delay": dk * dt, "delay_k": dk, "shape": rc.choice([[1], [3], [2, 2]]), "B": rc.choice([1, 1, 2, 3]),
               "interp": rc.choice(["previous", "nearest"]), "tol": tol,
               "cob": rc.choice([0.0, 0.0, -7.5, None]), "sob": rc.choice([False, False, True, None]),
               "Q": rc.choice([1.0, 2.5, -1.5, 30.0]), "tau": rc.choice([2.0, 5.0, 20.0, 0.3]), "tau_r": rc.choice([0.5, 1.0]),
               "floatspikes": rc.random() < 0.3}
        if kind == "dexp" and cfg["tau"] <= cfg["tau_r"]:
            cfg["tau"] = 2.0
        # a third of the synapses reach their step time / maximum delay through the property setters before the run starts
        via = stream(seed, "via")
        cfg["via"] = {"dt0": via.choice(DTS), "delay_k0": via.choice([0, 1, 3, 6]), "order": via.choice(["dt_delay", "delay_dt"])} if via.random() < 0.33 else None
        n = size_formula(dt, cfg["delay"], True)
        numel = cfg["B"] * int(np.prod(cfg["shape"]))
        ops = []
        for _ in range(ro.randint(4, 34 if tier == "thorough" else 26)):
            r = ro.random()
            if r < 0.55:
                p = ro.choice([0.1, 0.3, 0.6])
                op = {"op": "step", "spikes": [1 if ro.random() < p else 0 for _ in range(numel)]}
                if kind == "deltaplus" and ro.random() < 0.6:
                    op["inject"] = [round(ro.uniform(-2, 2), 2) for _ in range(numel)]
                ops.append(op)
            elif r < 0.93:
                sel = []
                D = ro.choice([0, 0, 2])
                for _e in range(numel * max(D, 1)):
                    c = ro.random()
                    k = ro.randint(0, n - 1)
                    if c < 0.4 or n == 1 and c < 0.6:
                        # on a recorded step, or (with a wide tolerance) a quarter of the tolerance away from it
                        sel.append(k * dt + (tol / 4 if tol >= 1e-3 and k < n - 1 and ro.random() < 0.4 else 0.0))
                    elif c < 0.7 and n > 1:
                        k = ro.randint(0, n - 2)
                        f = ro.choice([0.5, 0.25, 0.75, round(ro.uniform(0.1, 0.9), 2)])
                        sel.append((k + f) * dt)
                    elif c < 0.8:
                        sel.append(cfg["delay"])                                  # the limit itself
                    elif c < 0.9:
                        sel.append(cfg["delay"] + ro.choice([dt, 2.5 * dt, 0.2 * dt, 10 * tol + 1e-4]))   # beyond the supported delay
                    elif tol >= 1e-3:
                        sel.append(cfg["delay"] + tol / 4)                        # beyond, but inside the tolerance band
                    else:
                        sel.append(0.0)
                ops.append({"op": "query", "what": ro.choice(["current", "spike"]), "sel": sel, "D": D})
            else:
                ops.append({"op": "clear"})
        return {"config": cfg, "ops": ops}

    def _build(self, c, inplace):
        from inferno import neural as nn_

        shape, dt = tuple(c["shape"]), c["dt"]
        via = c.get("via")
        if via:
            syn = self._build(dict(c, via=None, dt=via["dt0"], delay=via["delay_k0"] * via["dt0"]), inplace)
            for a in via["order"].split("_"):
                setattr(syn, a, c[a])
            syn.clear()
            return syn
        common = dict(delay=c["delay"], interp_tol=c["tol"], current_overbound=c["cob"], spike_overbound=c["sob"], batch_size=c["B"], inplace=inplace)
        k = c["kind"]
        if k == "delta":
            return nn_.DeltaCurrent(shape, dt, spike_charge=c["Q"], interp_mode=c["interp"], **common)
        if k == "deltaplus":
            return nn_.DeltaPlusCurrent(shape, dt, spike_charge=c["Q"], interp_mode=c["interp"], **common)
        if k == "exp":
            return nn_.SingleExponentialCurrent(shape, dt, spike_charge=c["Q"], time_constant=c["tau"], spike_interp_mode=c["interp"], **common)
        return nn_.DoubleExponentialCurrent(shape, dt, spike_charge=c["Q"], tc_decay=c["tau"], tc_rise=c["tau_r"], spike_interp_mode=c["interp"], **common)

    def execute(self, desc, ctx):
        c = desc["config"]
        kind, dt, tol = c["kind"], c["dt"], c["tol"]
        shape, B = tuple(c["shape"]), c["B"]
        bshape = (B,) + shape
        n = size_formula(dt, c["delay"], True)
        facts = {"kind": kind, "dt": dt, "delay_k": c["delay_k"], "interp": c["interp"], "tol": tol, "cob": c["cob"], "sob": c["sob"], "via_setters": bool(c.get("via"))}
        if c.get("via"):
            ctx.fault("configured_through_setters")
        with ctx.impl("synapse()", facts):
            syn = self._build(c, False)
            twin = self._build(c, True)
        ctx.log("config", kind, dt, c["delay"], c["interp"], tol, c["cob"], c["sob"], list(bshape))
        events = []      # (spikes f64, injected f64) since last clear, oldest first
        rec_cur, rec_spk, rec_pos, rec_neg = [], [], [], []   # implementation's reported values, newest first
        nq = 0
        spiked_steps = 0

        def closed_form():
            t = len(events)
            out = np.zeros(bshape)
            for i, (s, inj) in enumerate(events):
                age = (t - 1 - i) * dt
                if kind in ("delta", "deltaplus"):
                    if i == t - 1:
                        out = out + s * (c["Q"] / dt) + (inj if inj is not None else 0.0)
                elif kind == "exp":
                    out = out + s * (c["Q"] / c["tau"]) * math.exp(-age / c["tau"])
                else:
                    out = out + s * (c["Q"] / (c["tau"] - c["tau_r"])) * (math.exp(-age / c["tau"]) - math.exp(-age / c["tau_r"]))
            return out

        def hist(lst, k, zero):
            return lst[k] if k < len(lst) else zero

        for op in desc["ops"]:
            name = op["op"]
            if name == "clear":
                ctx.fault("clear")
                with ctx.impl("clear", facts):
                    syn.clear()
                    twin.clear()
                events, rec_cur, rec_spk, rec_pos, rec_neg = [], [], [], [], []
                ctx.log("clear")
                continue
            if name == "step":
                sp = torch.tensor(op["spikes"]).reshape(bshape)
                x = sp.float() if c["floatspikes"] else sp.bool()
                args = [x]
                inj = None
                if "inject" in op:
                    inj = torch.tensor(op["inject"], dtype=torch.float32).reshape(bshape)
                    args.append(inj)
                with ctx.impl("forward", facts):
                    ca, ct = [a.clone() for a in args], [a.clone() for a in args]
                    out = syn(*ca)
                    out_t = twin(*ct)
                if len(events) % 2 == 0:
                    scribble(ctx, ca + ct)
                ctx.step(1, dt)
                events.append((sp.to(torch.float64).numpy(), None if inj is None else inj.to(torch.float64).numpy()))
                if sp.any():
                    spiked_steps += 1
                cur, spk = syn.current, syn.spike
                ctx.log("step", sp, out)
                ctx.judged += 1
                if tuple(out.shape) != bshape or not torch.equal(out, cur):
                    ctx.fail("forward_return", facts, "forward did not return the current it reports")
                want = closed_form()
                g = cur.detach().to(torch.float64).numpy()
                if g.shape != want.shape or np.any(np.abs(g - want) > 2e-5 + 2e-4 * np.abs(want)):
                    ctx.fail("impulse_response_sum", dict(facts, nsteps=len(events)), f"step {len(events)}: current {g.reshape(-1).tolist()} closed form {want.reshape(-1).tolist()}")
                if spk.dtype != torch.bool or not torch.equal(spk, sp.bool()):
                    ctx.fail("spike_record", facts, "stored spikes differ from the input spikes")
                if not torch.equal(cur, twin.current) or not torch.equal(spk, twin.spike) or not torch.equal(out, out_t):
                    ctx.fail("inplace_twin_differs", facts, "in-place and out-of-place synapses differ")
                rec_cur.insert(0, cur.detach().clone())
                rec_spk.insert(0, spk.detach().clone())
                if kind == "dexp":
                    rec_pos.insert(0, syn.pos_current.detach().clone())
                    rec_neg.insert(0, syn.neg_current.detach().clone())
                ctx.state((kind, n, min(len(events), n + 1), c["interp"], c["cob"] is None, c["sob"] is None, tol > 0))
                continue
            # ------------------------------------------------------------ delayed query
            D = op["D"]
            numel = int(np.prod(bshape))
            vals = np.array(op["sel"], dtype=np.float64)
            if vals.size != numel * max(D, 1):
                continue
            sel = torch.tensor(vals.reshape(bshape + ((D,) if D else ())), dtype=torch.float32)
            svals = sel.to(torch.float64).numpy().reshape(numel, max(D, 1))
            what = op["what"]
            qf = dict(facts, what=what)
            with ctx.impl(f"{what}_at", qf) as reg:
                got = syn.current_at(sel) if what == "current" else syn.spike_at(sel)
                got_t = twin.current_at(sel) if what == "current" else twin.spike_at(sel)
            if reg.waived:
                continue
            nq += 1
            ctx.log("query", what, sel, got)
            if tuple(got.shape) != tuple(sel.shape):
                ctx.fail("query_shape", qf, f"{what}_at returned shape {tuple(got.shape)} for selector {tuple(sel.shape)}")
                continue
            if what == "spike" and got.dtype != torch.bool:
                ctx.fail("query_dtype", qf, f"spike_at returned dtype {got.dtype}")
            if not torch.equal(got, got_t):
                ctx.fail("inplace_twin_differs", qf, "in-place and out-of-place synapses answer a delayed query differently")
            g = got.detach().to(torch.float64).numpy().reshape(numel, max(D, 1))
            zero_c = torch.zeros(bshape)
            zero_s = torch.zeros(bshape, dtype=torch.bool)
            ob = c["cob"] if what == "current" else c["sob"]
            for e in range(numel):
                idx = np.unravel_index(e, bshape)
                for d in range(max(D, 1)):
                    t = float(svals[e, d])
                    # beyond the supported delay?
                    # the selector is clamped in its own dtype (float32) to [0, max delay]
                    bounded = min(max(t, 0.0), float(np.float32(c["delay"]))) if n > 1 else 0.0
                    over = abs(t - bounded)
                    margin = max(4.9e-7, abs(t) * 1.3e-7)
                    if abs(over - tol) < margin and over != 0.0:
                        ctx.undecided += 1
                        continue
                    beyond = over > tol
                    if beyond:
                        ctx.probe("selector_beyond_supported_delay")
                        if ob is not None:
                            want = [float(ob)]
                            ctx.judged += 1
                            if not any(abs(g[e, d] - w) <= 1e-6 for w in want):
                                ctx.fail("overbound_value", dict(qf, ob=ob), f"{what}_at({t}) beyond delay {c['delay']} returned {g[e, d]}, configured out-of-bounds value {ob}")
                            continue
                        ctx.probe("overbound_none_value_at_limit")
                    if over > 0 and not beyond:
                        ctx.probe("within_tolerance_beyond_limit")
                    tq = bounded
                    if n == 1:
                        cands = [("on", 0)]
                    else:
                        cl = classify(tq, dt, tol)
                        cands = [cl] if cl[0] != "knife" else [("on", cl[1]), ("off", cl[2], cl[3], cl[4])]
                        if cl[0] == "knife":
                            ctx.probe("knife_edge_selector_either_accepted")
                    wants = []
                    for cl in cands:
                        if cl[0] == "on":
                            k = cl[1]
                            if what == "spike":
                                wants.append(float(hist(rec_spk, k, zero_s)[idx]))
                            else:
                                wants.append(float(hist(rec_cur, k, zero_c)[idx]))
                        else:
                            _, older, newer, el = cl
                            if older > n - 1:
                                continue
                            if what == "spike" or kind in ("delta", "deltaplus"):
                                lst, z = (rec_spk, zero_s) if (what == "spike" or kind == "delta") else (rec_cur, zero_c)
                                vo, vn = float(hist(lst, older, z)[idx]), float(hist(lst, newer, z)[idx])
                                if c["interp"] == "previous":
                                    v = [vo]
                                else:
                                    frac = el / dt
                                    v = [vn] if frac > 0.52 else [vo] if frac < 0.48 else [vo, vn]
                                if what == "current" and kind == "delta":
                                    v = [x * (c["Q"] / dt) for x in v]
                                wants.extend(v)
                            elif kind == "exp":
                                wants.append(float(hist(rec_cur, older, zero_c)[idx]) * math.exp(-el / c["tau"]))
                            else:
                                wants.append(float(hist(rec_pos, older, zero_c)[idx]) * math.exp(-el / c["tau"])
                                             - float(hist(rec_neg, older, zero_c)[idx]) * math.exp(-el / c["tau_r"]))
                    if not wants:
                        continue
                    ctx.judged += 1
                    gv = g[e, d]
                    if not any(abs(gv - w) <= 2e-5 + 2e-4 * abs(w) for w in wants):
                        ctx.fail("delayed_read", dict(qf, cls=cands[0][0], beyond=beyond),
                                 f"{what}_at({t}) [bounded {tq}, N={n}, {len(events)} steps since clear] returned {gv}, expected one of {wants}")
                    ctx.probe("query_on_grid" if cands[0][0] == "on" else "query_off_grid")
        ctx.nontrivial = spiked_steps >= 2 and nq >= 1


WORLD = SynapseWorld()
