"""connection_world (C05, C06): dense / direct / lateral / conv2d connections x four synapse kinds.

C05: output == documented linear map of the synapse current (float64 reference from the closed-form current of
the recorded input history); lateral self-weight / self-delay stay zero under any assignment / update history;
like_input(like_synaptic(x)) == x on every input position the connection reads.
C06: replica A (learned per-synapse delays) vs replica B (same connection, no delays) in one world: A's output,
syncurrent and synspike at step t must equal B's recorded history shifted by each synapse's delay.
"""
from __future__ import annotations

import math

import numpy as np
import torch
import torch.nn.functional as F

from ..kernel import World, stream, scribble
from ..models.synapse import closed_current, synapse_ctor

DTS = [1.0, 0.5, 0.25, 2.0, 0.1, 1.3]
TOLV = lambda b: 3e-5 + 3e-4 * np.abs(b)  # noqa: E731


def _f64(t):
    return t.detach().to(torch.float64).cpu().numpy()


def _wgen(seed, shape, lo=-1.0, hi=1.0):
    g = torch.Generator().manual_seed(seed)
    return (torch.randint(int(lo * 8), int(hi * 8) + 1, shape, generator=g).float() / 8.0)


class ConnectionWorld(World):
    name = "connection_world"
    real = ["inferno.neural LinearDense, LinearDirect, LinearLateral, Conv2D (forward, weight/bias/delay setters, selector, syncurrent, synspike, like_* helpers)",
            "the four synapse classes underneath", "inferno.neural.Updater for trainer-style updates"]
    stub = []
    state_measure = "distinct (connection kind, synapse kind, geometry hash, delay pattern, steps since clear capped, last op)"
    rule = ("each run = seeded connection geometry + synapse kind + parameters, then seeded steps (spike inputs, injected currents) interleaved with "
            "weight/bias/delay assignments, updater-driven updates, clear() faults; C06 runs a delayed and an undelayed replica on the same inputs; "
            "non-trivial = at least two steps with spikes; distinct = distinct event-log digests")

    # ------------------------------------------------------------------ generation
    def generate(self, seed, prop, tier):
        rc, ro = stream(seed, "config"), stream(seed, "ops")
        ckind = rc.choice(["dense", "direct", "lateral", "conv"])
        skind = rc.choice(["delta", "deltaplus", "exp", "dexp"])
        dt = rc.choice(DTS)
        cfg = {"ckind": ckind, "skind": skind, "dt": dt, "B": rc.choice([1, 1, 2, 3]), "bias": rc.random() < 0.5,
               "Q": rc.choice([1.0, 2.5, -1.5]), "tau": rc.choice([2.0, 5.0, 20.0]), "tau_r": rc.choice([0.5, 1.0]),
               "wseed": rc.randrange(1 << 30), "interp": rc.choice(["previous", "nearest"]), "tol": rc.choice([0.0, 0.0, 1e-6])}
        if ckind == "dense":
            cfg["inshape"] = rc.choice([[3], [2, 2], [4], [1, 3]])
            cfg["outshape"] = rc.choice([[2], [1, 2], [3], [2, 2]])
        elif ckind in ("direct", "lateral"):
            cfg["inshape"] = cfg["outshape"] = rc.choice([[3], [2, 2], [4], [1]] if ckind == "direct" else [[3], [2, 2], [4], [2]])
        else:
            while True:
                g = {"H": rc.randint(2, 6), "W": rc.randint(2, 6), "C": rc.choice([1, 2]), "F": rc.choice([1, 2, 3]),
                     "kernel": rc.choice([1, 2, 3, [2, 3], [1, 2]]), "stride": rc.choice([1, 1, 2, [1, 2]]), "padding": rc.choice([0, 0, 1, [0, 1]]),
                     "dilation": rc.choice([1, 1, 2])}
                k = g["kernel"] if isinstance(g["kernel"], list) else [g["kernel"]] * 2
                s = g["stride"] if isinstance(g["stride"], list) else [g["stride"]] * 2
                p = g["padding"] if isinstance(g["padding"], list) else [g["padding"]] * 2
                d = [g["dilation"]] * 2
                oh = math.floor((g["H"] + 2 * p[0] - d[0] * (k[0] - 1) - 1) / s[0] + 1)
                ow = math.floor((g["W"] + 2 * p[1] - d[1] * (k[1] - 1) - 1) / s[1] + 1)
                if oh >= 1 and ow >= 1 and oh * ow * g["C"] * k[0] * k[1] <= 150:
                    break
            cfg.update(g)
            cfg["inshape"] = [g["C"], g["H"], g["W"]]
            cfg["outshape"] = [g["F"], oh, ow]
        nsyn = self._nsyn(cfg)
        delayed = prop == "C06" or (ckind == "lateral" and rc.random() < 0.5)
        cfg["delayed"] = delayed
        if delayed:
            kmax = rc.choice([1, 3, 3, 6, 0, 0.5, 2.5])
            cfg["kmax"] = kmax
            cfg["delay_k"] = self._delay_pattern(rc, nsyn, kmax, prop)
        via = stream(seed, "via")
        cfg["via"] = {"dt0": via.choice(DTS), "B0": via.choice([1, 2, 4]), "order": via.choice(["dt_batchsz", "batchsz_dt"])} if via.random() < 0.25 else None
        nin = cfg["B"] * int(np.prod(cfg["inshape"]))
        ops = []
        for _ in range(ro.randint(4, 28 if tier == "thorough" else 20)):
            r = ro.random()
            if r < 0.6:
                p = ro.choice([0.15, 0.35, 0.6])
                op = {"op": "step", "spikes": [1 if ro.random() < p else 0 for _ in range(nin)]}
                if skind == "deltaplus" and ro.random() < 0.5:
                    op["inject"] = [round(ro.uniform(-2, 2), 2) for _ in range(nin)]
                ops.append(op)
            elif r < 0.68:
                ops.append({"op": "clear"})
            elif prop == "C05":
                k = ro.random()
                if k < 0.35:
                    ops.append({"op": "assign_weight", "seed": ro.randrange(1 << 30)})
                elif k < 0.5:
                    ops.append({"op": "assign_bias", "seed": ro.randrange(1 << 30)})
                elif k < 0.75:
                    ops.append({"op": "update", "seed": ro.randrange(1 << 30), "bound": ro.choice([None, "mult", "sharp"]),
                                "param": ro.choice(["weight", "weight", "delay"])})
                elif k < 0.8 and ckind == "lateral":
                    ops.append({"op": "assign_delay_raw", "seed": ro.randrange(1 << 30)})
                elif k < 0.9:
                    ops.append({"op": "assign_delay", "delay_k": self._delay_pattern(ro, nsyn, cfg.get("kmax", 1), prop, allow_diag=True)})
                elif k < 0.95:
                    ops.append({"op": "roundtrip", "seed": ro.randrange(1 << 30)})
                else:
                    ops.append({"op": "receptive", "seed": ro.randrange(1 << 30)})
            else:
                if ro.random() < 0.5:
                    ops.append({"op": "assign_delay", "delay_k": self._delay_pattern(ro, nsyn, cfg["kmax"], prop)})
                else:
                    ops.append({"op": "views"})
        return {"config": cfg, "ops": ops}

    @staticmethod
    def _nsyn(cfg):
        ck = cfg["ckind"]
        if ck == "dense":
            return int(np.prod(cfg["inshape"])) * int(np.prod(cfg["outshape"]))
        if ck == "direct":
            return int(np.prod(cfg["inshape"]))
        if ck == "lateral":
            return int(np.prod(cfg["inshape"])) ** 2
        k = cfg["kernel"] if isinstance(cfg["kernel"], list) else [cfg["kernel"]] * 2
        return cfg["F"] * cfg["C"] * k[0] * k[1]

    @staticmethod
    def _delay_pattern(r, nsyn, kmax, prop, allow_diag=False):
        c = r.random()
        ik = int(math.floor(kmax))
        grid = [float(k) for k in range(ik + 1)] + ([float(kmax)] if kmax != ik else [])    # whole steps, and the maximum itself
        if c < 0.2:
            return [0.0] * nsyn
        if c < 0.4:
            return [r.choice(grid)] * nsyn
        if (c < 0.85 and kmax == ik) or kmax == 0:
            return [r.choice(grid) for _ in range(nsyn)]
        # delays between grid points (interpolated history)
        return [min(float(kmax), r.randint(0, max(ik - (kmax == ik), 0)) + r.choice([0.0, 0.5, 0.25, 0.75])) for _ in range(nsyn)]

    # ------------------------------------------------------------------ construction
    def _build(self, cfg, delayed, ctx):
        from inferno import neural as nn_

        ck, dt, B = cfg["ckind"], cfg["dt"], cfg["B"]
        via = cfg.get("via")
        if via:
            # reach the step time / batch size / maximum delay through the property setters, then start from a cleared state
            conn = self._build(dict(cfg, via=None, dt=via["dt0"], B=via["B0"]), delayed, ctx)
            for a in via["order"].split("_"):
                setattr(conn, a, dt if a == "dt" else B)
            if delayed:
                conn.synapse.delay = cfg["kmax"] * dt
            conn.clear()
            ctx.fault("configured_through_setters")
            return conn
        syn = synapse_ctor(cfg["skind"], cfg)
        delay = cfg["kmax"] * dt if delayed else None
        ws = cfg["wseed"]
        kw = dict(synapse=syn, bias=cfg["bias"], delay=delay, batch_size=B,
                  weight_init=lambda x: _wgen(ws, tuple(x.shape)), bias_init=lambda x: _wgen(ws + 1, tuple(x.shape)))
        if ck == "dense":
            return nn_.LinearDense(tuple(cfg["inshape"]), tuple(cfg["outshape"]), dt, **kw)
        if ck == "direct":
            return nn_.LinearDirect(tuple(cfg["inshape"]), dt, **kw)
        if ck == "lateral":
            return nn_.LinearLateral(tuple(cfg["inshape"]), dt, **kw)
        tup = lambda v: tuple(v) if isinstance(v, list) else v  # noqa: E731
        return nn_.Conv2D(cfg["H"], cfg["W"], cfg["C"], cfg["F"], dt, tup(cfg["kernel"]), stride=tup(cfg["stride"]), padding=tup(cfg["padding"]),
                          dilation=cfg["dilation"], **kw)

    @staticmethod
    def _delay_tensor(cfg, conn, ks):
        """k*dt computed in the parameter dtype, as a user would"""
        shape = tuple(conn.weight.shape)
        return (torch.tensor(ks, dtype=torch.float32).reshape(shape) * cfg["dt"])

    # ------------------------------------------------------------------ reference maps (float64)
    @staticmethod
    def _ref_map(cfg, W, b, cur_in):
        """documented linear map applied to a current in *input layout* (B, *inshape)"""
        ck = cfg["ckind"]
        B = cur_in.shape[0]
        if ck == "dense":
            out = cur_in.reshape(B, -1) @ W.T
            if b is not None:
                out = out + b
            return out.reshape((B,) + tuple(cfg["outshape"]))
        if ck == "direct":
            out = cur_in.reshape(B, -1) * W
            if b is not None:
                out = out + b
            return out.reshape((B,) + tuple(cfg["outshape"]))
        if ck == "lateral":
            Wm = W * (1 - np.eye(W.shape[0]))
            out = cur_in.reshape(B, -1) @ Wm.T
            if b is not None:
                out = out + b
            return out.reshape((B,) + tuple(cfg["outshape"]))
        tup = lambda v: tuple(v) if isinstance(v, list) else (v, v)  # noqa: E731
        out = F.conv2d(torch.tensor(cur_in, dtype=torch.float64), torch.tensor(W, dtype=torch.float64),
                       None if b is None else torch.tensor(b, dtype=torch.float64),
                       stride=tup(cfg["stride"]), padding=tup(cfg["padding"]), dilation=tup(cfg["dilation"]))
        return out.numpy()

    # ------------------------------------------------------------------ execution
    def execute(self, desc, ctx):
        cfg = desc["config"]
        prop = ctx.prop
        if prop == "C06":
            return self._exec_c06(desc, ctx)
        return self._exec_c05(desc, ctx)

    def _inputs(self, cfg, op):
        bin_ = (cfg["B"],) + tuple(cfg["inshape"])
        sp = torch.tensor(op["spikes"]).reshape(bin_).bool()
        inj = torch.tensor(op["inject"], dtype=torch.float32).reshape(bin_) if "inject" in op else None
        return sp, inj

    def _exec_c05(self, desc, ctx):
        cfg = desc["config"]
        ck, sk, dt = cfg["ckind"], cfg["skind"], cfg["dt"]
        facts = {"ckind": ck, "skind": sk, "dt": dt, "B": cfg["B"], "bias": cfg["bias"], "delayed": cfg["delayed"]}
        with ctx.impl("connection()", facts):
            conn = self._build(cfg, cfg["delayed"], ctx)
            conn.updater = conn.defaultupdater()
        ctx.log("config", ck, sk, dt, cfg["inshape"], cfg["outshape"], cfg["delayed"])
        bout = (cfg["B"],) + tuple(cfg["outshape"])
        if tuple(conn.batched_outshape) != bout or tuple(conn.inshape) != tuple(cfg["inshape"]):
            ctx.fail("advertised_shape", facts, f"inshape/outshape {conn.inshape}/{conn.batched_outshape} vs {cfg['inshape']}/{bout}")
        W = _f64(conn.weight)          # model copy of what the connection must be using
        b = _f64(conn.bias) if cfg["bias"] else None
        delays_zero = True
        if cfg["delayed"]:
            ks = cfg["delay_k"]
            with ctx.impl("assign delay", facts):
                conn.delay = self._delay_tensor(cfg, conn, ks)
            delays_zero = all(k == 0 for k in (self._masked(ks, conn) if ck == "lateral" else ks))
        events = []
        nsp = 0

        def lateral_invariant(where):
            if ck != "lateral":
                return
            ctx.judged += 1
            if bool((conn.weight.diagonal() != 0).any()):
                ctx.fail("lateral_self_weight", dict(facts, after=where), f"nonzero self-weight after {where}: {conn.weight.diagonal().tolist()}")
            if conn.delay is not None and bool((conn.delay.diagonal() != 0).any()):
                ctx.fail("lateral_self_delay", dict(facts, after=where), f"nonzero self-delay after {where}: {conn.delay.diagonal().tolist()}")

        lateral_invariant("construction")
        for op in desc["ops"]:
            name = op["op"]
            if name == "clear":
                ctx.fault("clear")
                with ctx.impl("clear", facts):
                    conn.clear()
                events = []
                ctx.log("clear")
            elif name == "step":
                sp, inj = self._inputs(cfg, op)
                args = [sp] + ([inj] if inj is not None else [])
                given = [a.clone() for a in args]
                with ctx.impl("forward", facts):
                    out = conn(*given)
                if len(events) % 2 == 0:
                    scribble(ctx, given)
                ctx.step(1, dt)
                events.append((sp.to(torch.float64).numpy(), None if inj is None else inj.to(torch.float64).numpy()))
                nsp += int(sp.any())
                ctx.log("step", sp, out)
                if tuple(out.shape) != bout:
                    ctx.fail("output_shape", facts, f"forward returned shape {tuple(out.shape)} expected {bout}")
                    continue
                if delays_zero:
                    cur = closed_current(sk, cfg, events, dt)
                    want = self._ref_map(cfg, W, b, cur)
                    g = _f64(out)
                    ctx.judged += 1
                    if np.any(np.abs(g - want) > TOLV(want) + 1e-5 * np.abs(cur).max()):
                        ctx.fail("linear_map", dict(facts, nsteps=len(events)), f"output {g.reshape(-1)[:8].tolist()} expected {want.reshape(-1)[:8].tolist()}")
            elif name == "assign_weight":
                shape = tuple(conn.weight.shape)
                nw = _wgen(op["seed"], shape, -2, 2)
                how = ("new", "iadd", "inplace_self")[op["seed"] % 3]
                with ctx.impl("assign weight", dict(facts, how=how)):
                    if how == "new":
                        conn.weight = nw
                    elif how == "iadd":
                        # augmented assignment: the parameter is modified in place and handed back to the setter
                        old = conn.weight.detach().clone()
                        conn.weight += (nw - old)
                        nw = old + (nw - old)
                    else:
                        conn.weight.copy_(nw)
                        conn.weight = conn.weight
                ctx.fault("weight_assigned_" + how)
                W = _f64(nw)
                if ck == "lateral":
                    W = W * (1 - np.eye(W.shape[0]))
                ctx.log("assign_weight", nw)
                if not np.array_equal(_f64(conn.weight), W):
                    ctx.fail("weight_getter", facts, "weight getter does not report the assigned weights (masked for lateral)")
                lateral_invariant("weight assignment")
            elif name == "assign_bias":
                if not cfg["bias"]:
                    continue
                nb = _wgen(op["seed"], tuple(conn.bias.shape), -2, 2)
                with ctx.impl("assign bias", facts):
                    conn.bias = nb
                b = _f64(nb)
                ctx.log("assign_bias", nb)
            elif name == "assign_delay":
                if not cfg["delayed"]:
                    continue
                ks = op["delay_k"]
                ks = [min(k, cfg["kmax"]) for k in ks]
                with ctx.impl("assign delay", facts):
                    conn.delay = self._delay_tensor(cfg, conn, ks)
                eff = self._masked(ks, conn) if ck == "lateral" else ks
                delays_zero = all(k == 0 for k in eff)
                ctx.log("assign_delay", ks)
                lateral_invariant("delay assignment")
            elif name == "assign_delay_raw":
                # "whatever is assigned": arbitrary positive values, also above the supported maximum; the valid delays are put back at once
                if not cfg["delayed"]:
                    continue
                keep = conn.delay.detach().clone()
                g = torch.Generator().manual_seed(op["seed"])
                raw = (torch.randint(1, 9, tuple(keep.shape), generator=g).float() / 2.0) * dt
                with ctx.impl("assign delay", facts):
                    conn.delay = raw
                ctx.fault("out_of_range_delay_assignment")
                lateral_invariant("raw delay assignment")
                with ctx.impl("assign delay", facts):
                    conn.delay = keep
                lateral_invariant("delay assignment")
            elif name == "update":
                p = op["param"]
                if p == "delay" and not cfg["delayed"]:
                    continue
                target = getattr(conn, p)
                shape = tuple(target.shape)
                g = torch.Generator().manual_seed(op["seed"])
                pos = torch.randint(0, 9, shape, generator=g).float() / 16.0
                neg = torch.randint(0, 9, shape, generator=g).float() / 16.0
                import inferno.functional as IF

                acc = getattr(conn.updater, p)
                hi, lo = (2.0, -2.0) if p == "weight" else (cfg["kmax"] * dt, 0.0)
                with ctx.impl("bounded update", dict(facts, bound=op["bound"])):
                    if op["bound"] == "mult":
                        acc.upperbound(IF.bound_upper_multiplicative, hi)
                        acc.lowerbound(IF.bound_lower_multiplicative, lo)
                    elif op["bound"] == "sharp":
                        acc.upperbound(IF.bound_upper_sharp, hi)
                        acc.lowerbound(IF.bound_lower_sharp, lo)
                    else:
                        acc.upperbound(None)
                        acc.lowerbound(None)
                    setattr(conn.updater, p, (pos, neg))
                    conn.update()
                ctx.fault("trainer_style_update")
                ctx.log("update", p, op["bound"], getattr(conn, p))
                lateral_invariant(f"{p} update ({op['bound']}), as applied")
                if p == "weight":
                    W = _f64(conn.weight)     # adopt (C10 owns the update algebra); the diagonal is checked below
                else:
                    dl = conn.delay.detach().clamp(0, cfg["kmax"] * dt)
                    conn.delay = dl
                    delays_zero = bool((conn.delay == 0).all())
                lateral_invariant(f"{p} update ({op['bound']})")
            elif name == "roundtrip":
                g = torch.Generator().manual_seed(op["seed"])
                x = torch.randint(-8, 9, (cfg["B"],) + tuple(cfg["inshape"]), generator=g).float() / 4.0
                with ctx.impl("like_input(like_synaptic(x))", facts):
                    y = conn.like_input(conn.like_synaptic(x))
                ctx.judged += 1
                if ck == "conv":
                    tup = lambda v: tuple(v) if isinstance(v, list) else (v, v)  # noqa: E731
                    cover = F.fold(F.unfold(torch.ones_like(x), tup(cfg["kernel"]), dilation=tup(cfg["dilation"]), padding=tup(cfg["padding"]), stride=tup(cfg["stride"])),
                                   (cfg["H"], cfg["W"]), tup(cfg["kernel"]), dilation=tup(cfg["dilation"]), padding=tup(cfg["padding"]), stride=tup(cfg["stride"])) > 0
                else:
                    cover = torch.ones_like(x, dtype=torch.bool)
                if tuple(y.shape) != tuple(x.shape) or not torch.allclose(y[cover], x[cover], atol=1e-5):
                    ctx.fail("layout_roundtrip", facts, "like_input(like_synaptic(x)) != x on positions the connection reads")
                ctx.probe("layout_roundtrip")
            elif name == "receptive":
                # pre / post receptive views broadcast against the weight as documented: view[b, <weight index>, r] is the
                # pre- (post-) synaptic value feeding that synapse at receptive position r
                g = torch.Generator().manual_seed(op["seed"])
                B = cfg["B"]
                xin = torch.randint(1, 50, (B,) + tuple(cfg["inshape"]), generator=g).float()
                yout = torch.randint(1, 50, (B,) + tuple(cfg["outshape"]), generator=g).float()
                with ctx.impl("receptive views", facts):
                    xs = conn.like_synaptic(xin)
                    pre = conn.presyn_receptive(xs)
                    post = conn.postsyn_receptive(yout)
                    prod = (pre * post).sum(-1)
                ctx.judged += 1
                wshape = tuple(conn.weight.shape)
                if tuple(prod.shape[1:]) != wshape or prod.shape[0] != B:
                    ctx.fail("receptive_broadcast", facts, f"pre x post receptive views reduce to shape {tuple(prod.shape)}, expected (B, *weight.shape) = {(B,) + wshape}")
                else:
                    pre_b = _f64(pre.expand(*[max(a_, b_) for a_, b_ in zip(pre.shape, post.shape)]))
                    post_b = _f64(post.expand(*[max(a_, b_) for a_, b_ in zip(pre.shape, post.shape)]))
                    xs64, y64 = _f64(xs), _f64(yout)
                    if ck in ("dense", "lateral"):
                        want_pre = np.broadcast_to(xs64.reshape(B, 1, -1, 1), pre_b.shape)
                        want_post = np.broadcast_to(y64.reshape(B, -1, 1, 1), post_b.shape)
                    elif ck == "direct":
                        want_pre = np.broadcast_to(xs64.reshape(B, -1, 1), pre_b.shape)
                        want_post = np.broadcast_to(y64.reshape(B, -1, 1), post_b.shape)
                    else:
                        kk = cfg["kernel"] if isinstance(cfg["kernel"], list) else [cfg["kernel"]] * 2
                        L = xs64.shape[-1]
                        want_pre = np.broadcast_to(xs64.reshape(B, 1, cfg["C"], kk[0], kk[1], L), pre_b.shape)
                        want_post = np.broadcast_to(y64.reshape(B, cfg["F"], 1, 1, 1, L), post_b.shape)
                    if not np.array_equal(pre_b, want_pre):
                        ctx.fail("receptive_values", dict(facts, view="pre"), "presyn_receptive does not place each presynaptic value at its synapse / receptive position")
                    if not np.array_equal(post_b, want_post):
                        ctx.fail("receptive_values", dict(facts, view="post"), "postsyn_receptive does not place each postsynaptic value at its synapse / receptive position")
                ctx.probe("receptive_views")
            ctx.state((ck, sk, hash((tuple(cfg["inshape"]), tuple(cfg["outshape"]))) & 0xFFFF, delays_zero, min(len(events), 4), name))
        ctx.nontrivial = nsp >= 2

    @staticmethod
    def _masked(ks, conn):
        n = conn.weight.shape[0]
        a = np.array(ks, dtype=np.float64).reshape(n, n) * (1 - np.eye(n))
        return a.reshape(-1).tolist()

    # ---------------------------------------------------------------------------------- C06
    def _exec_c06(self, desc, ctx):
        cfg = desc["config"]
        ck, sk, dt = cfg["ckind"], cfg["skind"], cfg["dt"]
        kmax = cfg["kmax"]
        facts = {"ckind": ck, "skind": sk, "dt": dt, "B": cfg["B"], "kmax": kmax, "tol": cfg["tol"], "interp": cfg["interp"]}
        with ctx.impl("connection()", facts):
            A = self._build(cfg, True, ctx)
            Bc = self._build(cfg, False, ctx)
        ctx.log("config", ck, sk, dt, cfg["inshape"], cfg["outshape"], kmax, cfg["delay_k"])
        W = _f64(A.weight)
        if not np.array_equal(W, _f64(Bc.weight)):
            raise RuntimeError("replicas built with different weights")   # harness invariant
        b = _f64(A.bias) if cfg["bias"] else None
        wshape = tuple(A.weight.shape)
        ks = np.array(cfg["delay_k"], dtype=np.float64).reshape(wshape)
        with ctx.impl("assign delay", facts):
            A.delay = self._delay_tensor(cfg, A, cfg["delay_k"])
        if ck == "lateral":
            ks = ks * (1 - np.eye(wshape[0]))
        histB_cur, histB_spk, histB_pos, histB_neg = [], [], [], []   # newest first, synaptic layout
        nsp = 0
        bout = (cfg["B"],) + tuple(cfg["outshape"])

        def past(lst, k, like):
            return lst[k] if k < len(lst) else np.zeros_like(like)

        def shifted(kind):
            """expected delayed view in synaptic layout with a trailing per-target axis, built from B's recorded history.
            returns array shaped like A.syncurrent: dense/lateral (B, I, O); direct (B, N, 1); conv (B, N, L, F)"""
            cur0 = histB_cur[0] if kind == "current" else histB_spk[0]
            if ck in ("dense", "lateral"):
                kk = ks.T[None, :, :]                         # (1, I, O)
                base = cur0[:, :, None]
            elif ck == "direct":
                kk = ks.reshape(1, -1, 1)
                base = cur0[:, :, None]
            else:
                kk = ks.reshape(wshape[0], -1).T[None, :, None, :]   # (1, N, 1, F)
                base = cur0[:, :, :, None]
            kk = np.broadcast_to(kk, np.broadcast_shapes(kk.shape, base.shape))
            out = np.zeros(kk.shape, dtype=np.float64)
            lo = np.zeros(kk.shape, dtype=np.float64)
            hi = np.zeros(kk.shape, dtype=np.float64)
            amb = np.zeros(kk.shape, dtype=bool)
            for kval in np.unique(kk):
                sel = kk == kval
                fl, ce = math.floor(kval), math.ceil(kval)
                lst = histB_cur if kind == "current" else histB_spk
                if fl == ce:
                    v = past(lst, int(kval), cur0)
                    v = v[..., None] if v.ndim < kk.ndim else v
                    out = np.where(sel, np.broadcast_to(v, kk.shape), out)
                    continue
                el = dt * (ce - kval)       # time since the older sample
                older, newer = past(lst, ce, cur0), past(lst, fl, cur0)
                if kind == "spike" or sk in ("delta", "deltaplus"):
                    src_o, src_n = older, newer
                    if kind == "current" and sk == "delta":
                        # delta currents are derived from the interpolated spikes
                        src_o, src_n = past(histB_spk, ce, histB_spk[0]) * (cfg["Q"] / dt), past(histB_spk, fl, histB_spk[0]) * (cfg["Q"] / dt)
                    if cfg["interp"] == "previous":
                        v = src_o
                    else:
                        frac = el / dt
                        if abs(frac - 0.5) < 0.02:
                            amb = amb | sel
                            v = src_o
                        else:
                            v = src_n if frac > 0.5 else src_o
                elif sk == "exp":
                    v = older * math.exp(-el / cfg["tau"])
                else:
                    v = past(histB_pos, ce, cur0) * math.exp(-el / cfg["tau"]) - past(histB_neg, ce, cur0) * math.exp(-el / cfg["tau_r"])
                v = v[..., None] if v.ndim < kk.ndim else v
                out = np.where(sel, np.broadcast_to(v, kk.shape), out)
            return out, amb

        def expected_output(view):
            if ck in ("dense", "lateral"):
                Wm = W * (1 - np.eye(W.shape[0])) if ck == "lateral" else W
                out = np.einsum("bio,oi->bo", view, Wm)
                if b is not None:
                    out = out + b
                return out.reshape(bout)
            if ck == "direct":
                out = view[:, :, 0] * W
                if b is not None:
                    out = out + b
                return out.reshape(bout)
            Kf = W.reshape(W.shape[0], -1)                       # F N
            out = np.einsum("fn,bnlf->bfl", Kf, view)
            out = out.reshape(bout)
            if b is not None:
                out = out + b.reshape(1, -1, 1, 1)
            return out

        for op in desc["ops"]:
            name = op["op"]
            if name == "clear":
                ctx.fault("clear")
                with ctx.impl("clear", facts):
                    A.clear()
                    Bc.clear()
                histB_cur, histB_spk, histB_pos, histB_neg = [], [], [], []
                ctx.log("clear")
                continue
            if name == "assign_delay":
                ksl = [min(k, kmax) for k in op["delay_k"]]
                with ctx.impl("assign delay", facts):
                    A.delay = self._delay_tensor(cfg, A, ksl)
                ks = np.array(ksl, dtype=np.float64).reshape(wshape)
                if ck == "lateral":
                    ks = ks * (1 - np.eye(wshape[0]))
                ctx.fault("delay_reassigned_between_steps")
                ctx.log("assign_delay", ksl)
                continue
            if name == "views":
                if not histB_cur:
                    continue
                for kind in ("current", "spike"):
                    with ctx.impl(f"syn{kind}", facts):
                        got = A.syncurrent if kind == "current" else A.synspike
                    want, amb = shifted(kind)
                    if kmax == 0:
                        # documented: a maximum delay of 0 registers the delay parameter "but does not use delays" - the views are the undelayed ones
                        want = histB_cur[0] if kind == "current" else histB_spk[0]
                        amb = np.zeros(want.shape, dtype=bool)
                    g = _f64(got)
                    ctx.judged += 1
                    if g.shape != want.shape:
                        ctx.fail("delayed_view_shape", dict(facts, view=kind), f"syn{kind} shape {g.shape} expected {want.shape}")
                    elif np.any(~amb & (np.abs(g - want) > TOLV(want))):
                        i = tuple(np.argwhere(~amb & (np.abs(g - want) > TOLV(want)))[0])
                        ctx.fail("delayed_view", dict(facts, view=kind, offgrid=bool(np.any(ks != np.round(ks)))),
                                 f"syn{kind}{i} = {g[i]} expected {want[i]} (delay {ks.reshape(-1)[:6].tolist()}.. steps)")
                ctx.log("views")
                ctx.probe("delayed_views_checked")
                continue
            sp, inj = self._inputs(cfg, op)
            args = [sp] + ([inj] if inj is not None else [])
            with ctx.impl("forward", facts):
                givenA, givenB = [a.clone() for a in args], [a.clone() for a in args]
                outA = A(*givenA)
                outB = Bc(*givenB)
                if len(histB_cur) % 2 == 0:
                    scribble(ctx, givenA + givenB)
            ctx.step(1, dt)
            nsp += int(sp.any())
            histB_cur.insert(0, _f64(Bc.synapse.current))
            histB_spk.insert(0, _f64(Bc.synapse.spike))
            if sk == "dexp":
                histB_pos.insert(0, _f64(Bc.synapse.pos_current))
                histB_neg.insert(0, _f64(Bc.synapse.neg_current))
            ctx.log("step", sp, outA, outB)
            if tuple(outA.shape) != bout:
                ctx.fail("output_shape", facts, f"forward returned shape {tuple(outA.shape)} expected {bout}")
                continue
            view, amb = shifted("current")
            ctx.judged += 1
            if np.any(amb):
                ctx.undecided += 1
            else:
                want = expected_output(view)
                g = _f64(outA)
                scale = np.abs(view).max() if view.size else 0.0
                if np.any(np.abs(g - want) > TOLV(want) + 1e-5 * scale):
                    i = tuple(np.argwhere(np.abs(g - want) > TOLV(want) + 1e-5 * scale)[0])
                    ctx.fail("pure_time_shift", dict(facts, offgrid=bool(np.any(ks != np.round(ks))), all_zero=bool(np.all(ks == 0)), nsteps=len(histB_cur)),
                             f"step {len(histB_cur)} output{i} = {g[i]} expected {want[i]} from the undelayed replica's history shifted by {ks.reshape(-1)[:8].tolist()} steps")
                if np.all(ks == 0):
                    ctx.probe("all_delays_zero")
                    gb = _f64(outB)
                    if np.any(np.abs(g - gb) > TOLV(gb) + 1e-5 * scale):
                        ctx.fail("zero_delay_differs_from_undelayed", facts, "all delays zero but output differs from the undelayed connection")
                if np.any(ks != np.round(ks)):
                    ctx.probe("offgrid_delays")
                if np.any(ks == kmax):
                    ctx.probe("delay_at_maximum")
                if len(np.unique(ks)) > 1:
                    ctx.probe("heterogeneous_delays")
            ctx.state((ck, sk, kmax, bool(np.all(ks == 0)), bool(np.any(ks != np.round(ks))), min(len(histB_cur), kmax + 2), name))
        ctx.nontrivial = nsp >= 2


WORLD = ConnectionWorld()
