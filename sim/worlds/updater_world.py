"""updater_world (C10): contributor tasks interleaved by the seeded scheduler with reader / applier /
clear tasks against the multiset-of-pending-parts model; permuted-schedule replica; long-run range
invariants for the bounding functions."""
from __future__ import annotations

import numpy as np
import torch
import torch.nn as nn

from ..kernel import World, stream

HALF = ["mult", "smult", "power", "spower", "sharp"]
FULL = ["f_mult", "f_smult", "f_power", "f_spower", "f_sharp"]


def _mk_toy(shape, w, b):
    import inferno
    from inferno.neural import Updatable, Updater

    class Toy(Updatable, inferno.Module):
        def __init__(self):
            inferno.Module.__init__(self)
            Updatable.__init__(self)
            self.weight_ = nn.Parameter(w.clone(), False)
            self.bias_ = nn.Parameter(b.clone(), False)

        @property
        def weight(self):
            return self.weight_

        @weight.setter
        def weight(self, value):
            self.weight_.data = value

        @property
        def bias(self):
            return self.bias_

        @bias.setter
        def bias(self, value):
            self.bias_.data = value

        def defaultupdater(self, *includes, **kwargs):
            return Updater(self, "weight", "bias", *includes, **kwargs)

    return Toy()


def _np(t):
    return t.detach().to(torch.float64).cpu().numpy()


def _bound64(kind, side, p, u, lim, lo, hi, power):
    """float64 reference of the documented half-bounding functions; side=+1 upper, -1 lower."""
    rng = (hi - lo) if (hi is not None and lo is not None) else None
    d = (lim - p) if side > 0 else (p - lim)
    with np.errstate(all="ignore"):
        if kind in ("mult", "f_mult"):
            return d * u
        if kind in ("smult", "f_smult"):
            return d / rng * u
        if kind in ("power", "f_power"):
            return (d ** power) * u
        if kind in ("spower", "f_spower"):
            return ((d / rng) ** power) * u
        if kind in ("sharp", "f_sharp"):
            return np.where(d > 0, 1.0, 0.0) * u
    raise ValueError(kind)


class UpdaterWorld(World):
    name = "updater_world"
    real = ["inferno.neural.Updater / Accumulator / Updatable", "inferno.functional.bound_* (all shipped bounding functions)",
            "inferno.neural.LinearDense as the updatable parent in a share of runs"]
    stub = ["minimal Updatable module (two parameters with inferno-style setters) as parent in the other runs", "spy reduction callable passed at construction"]
    state_measure = "distinct (bounding kind, reduction, per-parameter (#pending pos, #pending neg) capped at 3, last op)"
    rule = ("algebra mode: K contributor tasks' part contributions interleaved by the seeded scheduler with reader, update/updatesome, clear and delete tasks, checked "
            "against the pending-multiset model and a replica executing a permuted schedule; long-run mode: up to 400 bounded updates with magnitudes inside the "
            "documented limits and the range invariant checked after every update; non-trivial = at least one applied update with pending parts; "
            "distinct = distinct event-log digests")

    def generate(self, seed, prop, tier):
        rc, ro = stream(seed, "config"), stream(seed, "ops")
        mode = "longrun" if rc.random() < 0.3 else "algebra"
        shape = rc.choice([[2], [2, 3], [3, 3], [4]])
        parent = rc.choice(["toy", "toy", "dense"])
        if parent == "dense":
            shape = [2, 3]
        lo, hi = rc.choice([(-1.0, 1.0), (0.0, 1.0), (0.0, 2.5), (-2.0, 3.0), (0.0, 0.5), (0.25, 0.5)])
        cfg = {"mode": mode, "shape": shape, "parent": parent, "lo": lo, "hi": hi, "pseed": rc.randrange(1 << 30),
               "reduction": rc.choice([None, None, "spy_sum", "mean", "amax"]),
               "power": rc.choice([1.0, 2.0, 3.0, 1.5])}
        if mode == "longrun":
            cfg["bound"] = rc.choice(["mult", "smult", "spower", "sharp", "f_mult", "f_smult", "f_spower", "f_sharp"])
            cfg["start_outside"] = cfg["bound"] in ("sharp", "f_sharp") and rc.random() < 0.5
            T = ro.randint(20, 400 if tier == "thorough" else 120)
            ops = [{"op": "lr", "seed": ro.randrange(1 << 30), "K": ro.choice([1, 2, 3]), "pos": ro.random() < 0.8, "neg": ro.random() < 0.8}
                   for _ in range(T)]
            return {"config": cfg, "ops": ops}
        cfg["bound"] = rc.choice([None, None] + HALF + FULL)
        cfg["sides"] = rc.choice(["both", "both", "upper", "lower"])
        cfg["sides_bias"] = stream(seed, "sides_bias").choice(["both", "upper", "lower"])     # each parameter's accumulator has its own half bounds
        cfg["on_limit"] = cfg["bound"] in ("sharp", "f_sharp") and stream(seed, "onlimit").random() < 0.5
        cfg["start"] = rc.choice(["inside", "inside", "outside"]) if cfg["bound"] in (None, "mult", "sharp", "f_mult", "f_sharp") else "inside"
        numel = int(np.prod(shape))
        ops = []
        nk = rc.choice([1, 2, 3])
        for _ in range(ro.randint(4, 36 if tier == "thorough" else 26)):
            r = ro.random()
            p = ro.choice(["weight", "weight", "bias"])
            sh = shape if p == "weight" else ([shape[0]] if parent == "dense" else shape)
            n = int(np.prod(sh))
            if r < 0.5:
                def part():
                    return [round(ro.random(), 3) if ro.random() < 0.8 else 0.0 for _ in range(n)]
                form = ro.choice(["tuple", "tuple", "pos_only", "neg_only", "direct"])
                ops.append({"op": "part", "who": ro.randrange(nk), "param": p, "form": form,
                            "pos": part() if form != "neg_only" else None, "neg": part() if form not in ("pos_only",) else None})
            elif r < 0.62:
                ops.append({"op": "read", "param": p, "which": ro.choice(["pos", "neg"])})
            elif r < 0.8:
                ops.append({"op": "update", "clear": ro.random() < 0.75})
            elif r < 0.88:
                ops.append({"op": "updatesome", "params": ro.choice([["weight"], ["bias"], ["weight", "bias"]]), "clear": ro.random() < 0.75})
            elif r < 0.94:
                ops.append({"op": "clear"})
            else:
                ops.append({"op": "del", "param": p})
        ops.append({"op": "update", "clear": True})
        ops.append({"op": "update", "clear": True})
        return {"config": cfg, "ops": ops}

    # ------------------------------------------------------------------
    def _parent(self, cfg, ctx, spy):
        from inferno.neural import DeltaCurrent, LinearDense, Updater

        shape = cfg["shape"]
        g = torch.Generator().manual_seed(cfg["pseed"])
        lo, hi = cfg["lo"], cfg["hi"]
        start = cfg.get("start", "inside")
        if cfg.get("start_outside"):
            start = "outside"

        def init(sh):
            u = torch.rand(sh, generator=g)
            if start == "inside":
                v = lo + (hi - lo) * (0.05 + 0.9 * u)
            else:
                v = lo - 0.5 + (hi - lo + 1.0) * u
            if cfg.get("on_limit"):
                # some elements sit exactly on a limit they "have reached" (the limits are exactly representable in float32)
                v = torch.where(u < 0.25, torch.full_like(v, hi), v)
                v = torch.where(u > 0.75, torch.full_like(v, lo), v)
            return v
        red = {None: None, "spy_sum": spy, "mean": torch.mean, "amax": torch.amax}[cfg["reduction"]]
        kw = {} if red is None else {"reduction": red}
        if cfg["parent"] == "dense":
            par = LinearDense((3,), (2,), 1.0, synapse=DeltaCurrent.partialconstructor(1.0), bias=True,
                              weight_init=lambda x: init(list(x.shape)), bias_init=lambda x: init(list(x.shape)))
            with ctx.impl("Updater()", {"reduction": cfg["reduction"]}) as reg:
                par.updater = Updater(par, "weight", "bias", **kw)
        else:
            par = _mk_toy(shape, init(shape), init(shape))
            with ctx.impl("Updater()", {"reduction": cfg["reduction"]}) as reg:
                par.updater = par.defaultupdater(**kw)
        if reg.waived:
            return None
        return par

    def _setbounds(self, cfg, par, ctx):
        import inferno.functional as F

        b = cfg["bound"]
        if b is None:
            return True
        lo, hi, power = cfg["lo"], cfg["hi"], cfg["power"]
        sides = cfg.get("sides", "both")
        half = {"mult": (F.bound_upper_multiplicative, F.bound_lower_multiplicative, {}),
                "smult": (F.bound_upper_scaled_multiplicative, F.bound_lower_scaled_multiplicative, {"range": hi - lo}),
                "power": (F.bound_upper_power, F.bound_lower_power, {"power": power}),
                "spower": (F.bound_upper_scaled_power, F.bound_lower_scaled_power, {"power": power, "range": hi - lo}),
                "sharp": (F.bound_upper_sharp, F.bound_lower_sharp, {})}
        full = {"f_mult": (F.bound_multiplicative, {}), "f_smult": (F.bound_scaled_multiplicative, {}),
                "f_power": (F.bound_power, {"upper_power": power, "lower_power": power}),
                "f_spower": (F.bound_scaled_power, {"upper_power": power, "lower_power": power}),
                "f_sharp": (F.bound_sharp, {})}
        with ctx.impl("set bounds", {"bound": b}) as reg:
            for p in ("weight", "bias"):
                acc = getattr(par.updater, p)
                if b in half:
                    fu, fl, kw = half[b]
                    sd = cfg.get("sides_bias", sides) if p == "bias" else sides
                    if sd in ("both", "upper"):
                        acc.upperbound(fu, hi, **kw)
                    if sd in ("both", "lower"):
                        acc.lowerbound(fl, lo, **kw)
                else:
                    ff, kw = full[b]
                    acc.fullbound(ff, hi, lo, **kw)
        return not reg.waived

    def _expected(self, cfg, old, pos, neg, p="weight"):
        """old + ub(reduce(pos)) - lb(reduce(neg)) in float64; pos / neg are reduced arrays or None."""
        b = cfg["bound"]
        lo, hi, power = cfg["lo"], cfg["hi"], cfg["power"]
        sides = (cfg.get("sides_bias", cfg.get("sides", "both")) if p == "bias" else cfg.get("sides", "both")) if b in HALF else "both"
        if pos is None and neg is None:
            return None
        z = np.zeros_like(old)
        up = pos if pos is not None else z
        dn = neg if neg is not None else z
        if b is not None:
            if sides in ("both", "upper"):
                up = _bound64(b, +1, old, up, hi, lo, hi, power)
            if sides in ("both", "lower"):
                dn = _bound64(b, -1, old, dn, lo, lo, hi, power)
        with np.errstate(all="ignore"):
            res = old + up - dn
            # float32 cannot follow runaway magnitudes (unscaled power bounds outside the range): not judged
            res = np.where((np.abs(old) < 1e12) & (np.abs(up) < 1e12) & (np.abs(dn) < 1e12), res, np.nan)
            self._scale = np.abs(old) + np.abs(up) + np.abs(dn)      # magnitude of the float32 operands (cancellation)
        return res

    def execute(self, desc, ctx):
        cfg = desc["config"]
        calls = []

        def spy(x, dim):
            calls.append(tuple(x.shape))
            return torch.sum(x, dim)

        facts = {"bound": cfg["bound"], "reduction": cfg["reduction"], "parent": cfg["parent"], "mode": cfg["mode"]}
        par = self._parent(cfg, ctx, spy)
        if par is None or not self._setbounds(cfg, par, ctx):
            return
        ctx.log("config", cfg["mode"], cfg["bound"], cfg["reduction"], cfg["parent"])
        if cfg["mode"] == "longrun":
            return self._longrun(desc, ctx, par, facts)
        # permuted replica
        calls_b = []
        rep = self._parent(cfg, ctx, lambda x, dim: torch.sum(x, dim))
        self._setbounds(cfg, rep, ctx)
        red64 = {None: np.sum, "spy_sum": np.sum, "mean": np.mean, "amax": np.max}[cfg["reduction"]]
        pend = {p: {"pos": [], "neg": []} for p in ("weight", "bias")}
        fresh = {}  # (param, sign) -> reduced value already computed since the last change
        seg = []   # part ops of the current epoch, for the replica

        def tt(v, p):
            sh = tuple(getattr(par, p).shape)
            return torch.tensor(v, dtype=torch.float32).reshape(sh)

        def contribute(target, op):
            p = op["param"]
            pos = None if op["pos"] is None else tt(op["pos"], p)
            neg = None if op["neg"] is None else tt(op["neg"], p)
            form = op["form"]
            if form == "direct":
                acc = getattr(target.updater, p)
                acc.pos = pos
                acc.neg = neg
            elif form == "pos_only":
                setattr(target.updater, p, pos)
            else:
                setattr(target.updater, p, (pos, neg))
            return pos, neg

        def reduced(p, which):
            lst = pend[p][which]
            if not lst:
                return None
            return red64(np.stack(lst, 0), 0)

        def flush_replica():
            for op in reversed(seg):
                contribute(rep, op)
            seg.clear()

        def apply(params, clear, how):
            olds = {p: _np(getattr(par, p)) for p in params}
            n_before = len(calls)
            # parts already reduced by a reader since the last append are served from the accumulator's cache
            expect_calls = sum(1 for p in params for w in ("pos", "neg") if pend[p][w] and not fresh.get((p, w)))
            with ctx.impl(how, dict(facts, clear=clear)) as reg:
                if how == "update":
                    par.update(clear=clear)
                else:
                    par.updatesome(*params, clear=clear)
            if reg.waived:
                return False
            flush_replica()
            if how == "update":
                rep.update(clear=clear)
            else:
                rep.updatesome(*params, clear=clear)
            any_pending = False
            for p in params:
                pos, neg = reduced(p, "pos"), reduced(p, "neg")
                want = self._expected(cfg, olds[p], pos, neg, p)
                got = _np(getattr(par, p))
                ctx.judged += 1
                if want is None:
                    ctx.probe("apply_with_nothing_pending")
                    if not np.array_equal(got, olds[p], equal_nan=True):
                        ctx.fail("untouched_when_empty", dict(facts, param=p), f"{how} with nothing accumulated changed {p}")
                    continue
                any_pending = True
                fin = np.isfinite(want) & (np.abs(want) < 1e30) & np.isfinite(olds[p])
                scale = np.where(np.isfinite(self._scale), self._scale, 0.0)
                tol = 2e-5 + 2e-4 * np.abs(np.where(fin, want, 0)) + 1e-5 * sum(np.abs(x).sum(0) for x in (pend[p]["pos"] + pend[p]["neg"])) + 3e-6 * scale
                if got.shape != want.shape or np.any(fin & ~(np.abs(got - np.where(fin, want, 0)) <= tol)):
                    ctx.fail("applied_value", dict(facts, param=p, npos=len(pend[p]["pos"]), nneg=len(pend[p]["neg"]), how=how),
                             f"{how}: {p} = {got.tolist()} expected old + ub(reduce(pos)) - lb(reduce(neg)) = {want.tolist()}")
                gr = np.nan_to_num(_np(getattr(rep, p)), nan=0.0, posinf=0.0, neginf=0.0)
                got = np.nan_to_num(got, nan=0.0, posinf=0.0, neginf=0.0)
                tol2 = 5e-5 + 5e-4 * np.abs(np.where(fin, want, 0)) + 6e-6 * scale
                if np.any(fin & ~(np.abs(gr - got) <= tol2)):
                    ctx.fail("order_dependence", dict(facts, param=p), f"{how}: permuted contribution order gives {gr.tolist()} vs {got.tolist()}")
                # rounding differences must not compound through unstable (e.g. unscaled power) dynamics: the replica
                # restarts every update from the same parameter value
                setattr(rep, p, getattr(par, p).detach().clone())
                if len(pend[p]["pos"]) + len(pend[p]["neg"]) > 1:
                    ctx.probe("multi_part_update")
            if cfg["reduction"] == "spy_sum":
                if len(calls) - n_before < expect_calls and expect_calls:
                    ctx.fail("custom_reduction_not_used", facts, f"custom reduction called {len(calls) - n_before} times, expected at least {expect_calls}")
                if expect_calls:
                    ctx.probe("custom_reduction_observed")
            if any_pending:
                ctx.nontrivial = True
            for p in params:
                fresh[(p, "pos")] = fresh[(p, "neg")] = True
            if clear:
                for p in params:
                    pend[p] = {"pos": [], "neg": []}
            else:
                ctx.probe("update_without_clear")
            return True

        for op in desc["ops"]:
            name = op["op"]
            if name == "part":
                with ctx.impl("contribute", dict(facts, form=op["form"])):
                    pos, neg = contribute(par, op)
                seg.append(op)
                if pos is not None:
                    pend[op["param"]]["pos"].append(_np(pos))
                    fresh[(op["param"], "pos")] = False
                if neg is not None and op["form"] != "pos_only":
                    pend[op["param"]]["neg"].append(_np(neg))
                    fresh[(op["param"], "neg")] = False
                ctx.log("part", op["who"], op["param"], op["form"], pos, neg)
            elif name == "read":
                p, which = op["param"], op["which"]
                with ctx.impl("read accumulator", facts):
                    got = getattr(getattr(par.updater, p), which)
                want = reduced(p, which)
                ctx.fault("reader_between_appends")
                ctx.judged += 1
                if want is None:
                    if got is not None:
                        ctx.fail("accumulator_value", dict(facts, which=which), f"{p}.{which} is not None with nothing pending")
                else:
                    if got is None or _np(got).shape != want.shape or np.any(np.abs(_np(got) - want) > 1e-5 + 1e-4 * np.abs(want)):
                        ctx.fail("accumulator_value", dict(facts, which=which, n=len(pend[p][which])),
                                 f"{p}.{which} = {None if got is None else _np(got).tolist()} expected reduce of {len(pend[p][which])} parts = {want.tolist()}")
                fresh[(p, which)] = True
                ctx.log("read", p, which, got)
            elif name == "update":
                apply(["weight", "bias"], op["clear"], "update")
                ctx.log("update", op["clear"], par.weight, par.bias)
            elif name == "updatesome":
                apply(list(op["params"]), op["clear"], "updatesome")
                ctx.log("updatesome", op["params"], op["clear"], par.weight, par.bias)
            elif name == "clear":
                with ctx.impl("clear", facts):
                    par.updater.clear()
                flush_replica()
                rep.updater.clear()
                pend = {p: {"pos": [], "neg": []} for p in ("weight", "bias")}
                ctx.fault("clear")
                ctx.log("clear")
            elif name == "del":
                p = op["param"]
                with ctx.impl("del accumulator", facts):
                    delattr(par.updater, p)
                flush_replica()
                delattr(rep.updater, p)
                pend[p] = {"pos": [], "neg": []}
                ctx.fault("delete_pending")
                ctx.log("del", p)
            ctx.state((cfg["bound"], cfg["reduction"], tuple((min(len(pend[p]["pos"]), 3), min(len(pend[p]["neg"]), 3)) for p in ("weight", "bias")), name))

    def _longrun(self, desc, ctx, par, facts):
        cfg = desc["config"]
        b, lo, hi = cfg["bound"], cfg["lo"], cfg["hi"]
        rng = hi - lo
        limit = 1.0 if b in ("mult", "f_mult") else rng
        sharp = b in ("sharp", "f_sharp")
        slack = 1e-5 * (abs(lo) + abs(hi) + rng)
        red = cfg["reduction"]
        for i, op in enumerate(desc["ops"]):
            g = torch.Generator().manual_seed(op["seed"])
            K = op["K"]
            olds = {p: _np(getattr(par, p)) for p in ("weight", "bias")}
            for p in ("weight", "bias"):
                sh = tuple(getattr(par, p).shape)
                for _k in range(K):
                    # keep the *reduced* magnitude within the documented limit
                    scale = limit / K if red in (None, "spy_sum") else limit
                    if sharp:
                        scale = 3.0 * rng
                    pos = torch.rand(sh, generator=g) * scale if op["pos"] else None
                    neg = torch.rand(sh, generator=g) * scale if op["neg"] else None
                    if _k == 0 and not sharp:
                        # hit the limit exactly now and then
                        if pos is not None:
                            pos = torch.where(torch.rand(sh, generator=g) < 0.15, torch.full(sh, float(scale)), pos)
                        if neg is not None:
                            neg = torch.where(torch.rand(sh, generator=g) < 0.15, torch.full(sh, float(scale)), neg)
                    setattr(par.updater, p, (pos, neg))
            with ctx.impl("update", dict(facts, longrun=True)) as reg:
                par.update()
            if reg.waived:
                return
            ctx.step(1)
            ctx.nontrivial = True
            for p in ("weight", "bias"):
                new = _np(getattr(par, p))
                ctx.judged += 1
                if not np.all(np.isfinite(new)):
                    ctx.fail("longrun_nonfinite", dict(facts, param=p, step=i), f"update {i}: {p} became non-finite")
                if sharp:
                    old = olds[p]
                    up = (old >= hi) & (new > old + slack)
                    dn = (old <= lo) & (new < old - slack)
                    if np.any(up | dn):
                        ctx.fail("sharp_moves_beyond_limit", dict(facts, param=p, step=i), f"update {i}: {p} moved further beyond a limit it had reached: {old.tolist()} -> {new.tolist()}")
                    if np.any((old >= hi) | (old <= lo)):
                        ctx.probe("sharp_at_or_beyond_limit")
                else:
                    if np.any(new > hi + slack) or np.any(new < lo - slack):
                        ctx.fail("left_range", dict(facts, param=p, step=i), f"update {i}: {p} left [{lo},{hi}]: {new.tolist()}")
                    if np.any(np.abs(new - hi) < 1e-3 * rng) or np.any(np.abs(new - lo) < 1e-3 * rng):
                        ctx.probe("longrun_near_limit")
            if i % 16 == 0:
                ctx.log("lr", i, par.weight)
        ctx.log("lr_end", par.weight, par.bias)
        ctx.state((b, cfg["reduction"], "longrun", len(desc["ops"]) // 50))


WORLD = UpdaterWorld()
