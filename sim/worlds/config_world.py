"""config_world (C14): configuration-path independence.

Replica A is constructed directly in configuration Y.  Replica B is constructed in configuration X and driven to Y
by a seeded schedule of property assignments (possibly through intermediate values, with .to(dtype) somewhere on the
way).  After every single assignment the assigned getter must report the new value and every other getter must be
unchanged; at Y all internal RecordTensors must have the same record size / observation shape / dtype as A's; after
clear() both replicas must produce identical outputs (and delayed / time-indexed reads) for the same inputs.
"""
from __future__ import annotations

import numpy as np
import torch

from ..kernel import World, stream
from ..models.synapse import synapse_ctor
from . import neuron_world

DTS = [1.0, 0.5, 0.25, 2.0, 0.1, 1.3]
KINDS = ["neuron", "synapse", "synapse", "connection", "connection", "reducer", "reducer", "layer", "record"]


def _records(module):
    """(path, recordsz, observation shape, dtype) of every RecordTensor reachable from a module"""
    from inferno import RecordTensor

    out = []
    for name, m in module.named_modules():
        for k, v in list(vars(m).items()):
            if isinstance(v, RecordTensor):
                out.append((f"{name}.{k}", v.recordsz, None if v.ignored else tuple(v.value.shape[1:]), None if v.ignored else v.value.dtype))
    return sorted(out, key=lambda r: r[0])


class ConfigWorld(World):
    name = "config_world"
    real = ["property setters of neurons (dt, batchsz), synapses (dt, delay, batchsz, inplace), connections (dt, batchsz, synapse, weight/bias/delay), reducers (dt, duration, inplace)",
            "Module.to(dtype)", "BatchMixin / DelayedMixin / RecordReducer propagation to RecordTensors"]
    stub = []
    state_measure = "distinct (component kind, class, X->Y attribute deltas, schedule length, dtype change)"
    rule = ("each run = component kind + configurations X and Y + a seeded schedule of setter calls (with intermediate values) taking a replica from X to Y, a second replica constructed "
            "directly in Y, then a seeded input sequence with delayed / time-indexed reads after clear(); non-trivial = at least one setter changed a value; distinct = distinct event-log digests")

    def generate(self, seed, prop, tier):
        rc, ro = stream(seed, "config"), stream(seed, "ops")
        kind = rc.choice(KINDS)
        cfg = {"kind": kind, "wseed": rc.randrange(1 << 30), "to64": rc.random() < 0.25}

        def conf():
            dt = rc.choice(DTS)
            return {"dt": dt, "B": rc.choice([1, 2, 3]), "delay_k": rc.choice([0, 1, 3, 2.5]), "inplace": rc.random() < 0.5, "duration_k": rc.choice([0, 1, 3, 2.5])}
        X, Y = conf(), conf()
        if kind == "neuron":
            base = neuron_world.WORLD.generate(rc.randrange(1 << 62), "C03", tier)["config"]
            base["refrac_k"] = base["refrac_k"] or 1
            cfg["base"] = base
            attrs = ["dt", "B"]
        elif kind == "synapse":
            cfg["skind"] = rc.choice(["delta", "deltaplus", "exp", "dexp"])
            cfg["shape"] = rc.choice([[2], [3], [2, 2]])
            cfg["interp"] = rc.choice(["previous", "nearest"])
            attrs = ["dt", "B", "delay_k", "inplace"]
        elif kind in ("connection", "layer"):
            cfg["ckind"] = rc.choice(["dense", "direct"])
            cfg["skind"] = rc.choice(["delta", "exp", "dexp", "deltaplus"])
            cfg["skind_new"] = rc.choice([None, None, "delta", "exp", "deltaplus"])
            cfg["nin"], cfg["nout"] = rc.choice([2, 3]), rc.choice([2, 3])
            cfg["delayed"] = rc.random() < 0.5
            attrs = ["dt", "B", "weight", "synapse"] + (["delay_k", "delay_values"] if cfg["delayed"] else [])
            X["delay_k"], Y["delay_k"] = rc.choice([1, 3]), rc.choice([1, 3, 2])
        elif kind == "record":
            cfg["shape"] = rc.choice([[2], [3]])
            X["inclusive"], Y["inclusive"] = rc.random() < 0.5, rc.random() < 0.5
            attrs = ["dt", "duration_k", "inclusive"]
        else:
            cfg["rkind"] = rc.choice(["nearest", "cumulative", "event", "passthrough", "ema", "ca", "scaled_cumulative"])
            cfg["shape"] = rc.choice([[2], [3]])
            attrs = ["dt", "duration_k", "inplace"]
            Y["duration_k"] = Y["duration_k"] or rc.choice([1, 3])     # the duration setter only accepts positive values
        cfg["X"], cfg["Y"] = X, Y
        # schedule: some intermediate assignments, then every attribute is set to its Y value in a random order
        sched = []
        for _ in range(ro.randint(0, 4)):
            a = ro.choice(attrs)
            v = conf()
            sched.append({"attr": a, "v": v[a] if a in v else ro.randrange(1 << 30)})
        final = list(attrs)
        ro.shuffle(final)
        for a in final:
            sched.append({"attr": a, "v": Y[a] if a in Y else None, "final": True})
        if cfg["to64"]:
            sched.insert(ro.randint(0, len(sched)), {"attr": "to64"})
        rr = stream(seed, "refused")
        if rr.random() < 0.3:
            # an assignment the setter's own argument test refuses: the component keeps its configuration
            cand = [a for a in attrs if a in ("dt", "B", "delay_k", "duration_k")]
            if cand:
                sched.insert(rr.randint(0, len(sched)), {"attr": "refused", "which": rr.choice(cand), "v": rr.choice([-1.0, 0.0]) })
        T = ro.randint(4, 14)
        cfg["sched"] = sched
        ops = [{"seed": ro.randrange(1 << 30), "p": ro.choice([0.3, 0.6, 0.9]), "query": ro.random() < 0.6} for _ in range(T)]
        return {"config": cfg, "ops": ops}

    # ------------------------------------------------------------------ construction
    def _build(self, cfg, c):
        from inferno import neural as nn_
        from inferno import observe as ob

        kind, dt, B = cfg["kind"], c["dt"], c["B"]
        if kind == "neuron":
            base = dict(cfg["base"], dt=dt, B=B)
            base["refrac_t"] = base["refrac_k"] * 1.0      # a fixed refractory time in ms, independent of the step time
            return neuron_world.WORLD._build(base)
        if kind == "synapse":
            syn = synapse_ctor(cfg["skind"], {"Q": 2.0, "tau": 5.0, "tau_r": 1.0, "interp": cfg["interp"]}, inplace=c["inplace"])
            return syn(tuple(cfg["shape"]), dt, c["delay_k"] * dt, B)
        if kind in ("connection", "layer"):
            sk = cfg["skind"]
            syn = synapse_ctor(sk, {"Q": 40.0, "tau": 5.0, "tau_r": 1.0})
            delay = c["delay_k"] * dt if cfg["delayed"] else None
            ws = cfg["wseed"]
            kw = dict(synapse=syn, bias=True, delay=delay, batch_size=B, weight_init=lambda x: self._w(ws, x.shape), bias_init=lambda x: self._w(ws + 1, x.shape) * 2.0)
            if cfg["ckind"] == "dense":
                conn = nn_.LinearDense((cfg["nin"],), (cfg["nout"],), dt, **kw)
            else:
                conn = nn_.LinearDirect((cfg["nin"],), dt, **kw)
            if kind == "connection":
                return conn
            n = cfg["nout"] if cfg["ckind"] == "dense" else cfg["nin"]
            nrn = nn_.LIF((n,), dt, rest_v=-60.0, reset_v=-65.0, thresh_v=-50.0, refrac_t=2.0, time_constant=8.0, batch_size=B)
            return nn_.Serial(conn, nrn)
        if kind == "record":
            from inferno import Module, RecordTensor

            owner = Module()
            RecordTensor.create(owner, "rec", dt, c["duration_k"] * dt, torch.zeros(cfg["shape"]), inclusive=c["inclusive"])
            owner.clear = lambda: owner.rec.reset(0)
            return owner
        k = cfg["rkind"]
        kw = dict(duration=c["duration_k"] * dt, inplace=c["inplace"])
        if k == "nearest":
            return ob.NearestTraceReducer(dt, 6.0, 1.0, True, **kw)
        if k == "cumulative":
            return ob.CumulativeTraceReducer(dt, 6.0, 1.0, True, **kw)
        if k == "scaled_cumulative":
            return ob.ScaledCumulativeTraceReducer(dt, 6.0, 1.0, 0.5, lambda x: x > 0.5, **kw)
        if k == "event":
            return ob.EventReducer(dt, lambda x: x > 0.5, "inf", **kw)
        if k == "passthrough":
            return ob.PassthroughReducer(dt, **kw)
        if k == "ema":
            return ob.EMAReducer(dt, 0.3, **kw)
        return ob.CAReducer(dt, **kw)

    @staticmethod
    def _w(seed, shape):
        g = torch.Generator().manual_seed(seed)
        return torch.randint(0, 13, tuple(shape), generator=g).float() / 8.0

    # getters reported by a component, as plain comparable values
    def _getters(self, cfg, m):
        kind = cfg["kind"]
        if kind == "neuron":
            return {"dt": m.dt, "B": m.batchsz, "shape": tuple(m.shape), "batchedshape": tuple(m.batchedshape)}
        if kind == "synapse":
            return {"dt": m.dt, "B": m.batchsz, "delay": m.delay, "inplace": m.inplace, "shape": tuple(m.shape)}
        if kind in ("connection", "layer"):
            c = m if kind == "connection" else m.connection
            g = {"dt": c.dt, "B": c.batchsz, "delayedby": c.delayedby, "inshape": tuple(c.inshape), "outshape": tuple(c.outshape), "biased": c.biased,
                 "weight": tuple(c.weight.detach().flatten().tolist()), "synapse_type": type(c.synapse).__name__, "synapse_dt": c.synapse.dt,
                 "delay_values": None if c.delay is None else tuple(c.delay.detach().flatten().tolist())}
            if kind == "layer":
                g.update({"neuron_dt": m.neuron.dt, "neuron_B": m.neuron.batchsz})
            return g
        if kind == "record":
            return {"dt": m.rec.dt, "duration": m.rec.duration, "inclusive": bool(m.rec.inclusive)}
        return {"dt": m.dt, "duration": m.duration, "inplace": m.inplace}

    def _apply(self, cfg, m, op, cur):
        """one assignment on replica B; returns (getter key(s) expected to change, expected new values)"""
        from inferno import neural as nn_

        kind, a = cfg["kind"], op["attr"]
        if a == "to64":
            m.to(torch.float64)
            return {}
        if kind == "record":
            if a == "dt":
                m.rec.dt = op["v"]
                cur["dt"] = op["v"]
                return {"dt": op["v"]}
            if a == "duration_k":
                d = op["v"] * (cfg["Y"]["dt"] if op.get("final") else cur["dt"])
                m.rec.duration = d
                cur["duration_k"] = op["v"]
                return {"duration": d}
            if a == "inclusive":
                m.rec.inclusive = bool(op["v"])
                return {"inclusive": bool(op["v"])}
        if a == "dt":
            if kind == "layer":
                m.connection.dt = op["v"]
                m.neuron.dt = op["v"]
                cur["dt"] = op["v"]
                return {"dt": op["v"], "synapse_dt": op["v"], "neuron_dt": op["v"]}
            m.dt = op["v"]
            cur["dt"] = op["v"]
            return {"dt": op["v"], "synapse_dt": op["v"]} if kind == "connection" else {"dt": op["v"]}
        if a == "B":
            if kind == "layer":
                m.connection.batchsz = op["v"]
                m.neuron.batchsz = op["v"]
                cur["B"] = op["v"]
                return {"B": op["v"], "neuron_B": op["v"]}
            m.batchsz = op["v"]
            cur["B"] = op["v"]
            exp = {"B": op["v"]}
            if kind == "neuron":
                exp["batchedshape"] = (op["v"],) + tuple(m.shape)
            return exp
        if a == "delay_k":
            # a maximum delay of k current steps (the final assignment is made once dt has its final value or recomputed below)
            d = op["v"] * (cfg["Y"]["dt"] if op.get("final") and kind not in ("connection", "layer") else cur["dt"])
            cur["delay_k"] = op["v"]
            if kind in ("connection", "layer"):
                if not op["v"]:
                    return None
                c = m if kind == "connection" else m.connection
                c.synapse.delay = d
                # learned delays above the new maximum are the user's to fix: keep them inside the range
                if c.delay is not None:
                    dl = c.delay.detach()
                    c.delay = torch.where(dl > d + 1e-6, torch.full_like(dl, d), dl)
                    return {"delayedby": d, "delay_values": tuple(c.delay.detach().flatten().tolist())}
                return {"delayedby": d}
            m.delay = d
            return {"delay": d}
        if a == "inplace":
            m.inplace = bool(op["v"])
            return {"inplace": bool(op["v"])}
        if a == "duration_k":
            if not op["v"]:
                return None
            d = op["v"] * (cfg["Y"]["dt"] if op.get("final") else cur["dt"])
            m.duration = d
            cur["duration_k"] = op["v"]
            return {"duration": d}
        c = m if kind == "connection" else m.connection
        if a == "weight":
            w = self._w(cfg["wseed"] if op.get("final") else (op["v"] or 7), tuple(c.weight.shape))
            c.weight = w.to(c.weight.dtype)
            return {"weight": tuple(w.flatten().tolist())}
        if a == "delay_values":
            k = cfg["Y"]["delay_k"]
            g = torch.Generator().manual_seed(cfg["wseed"] + 5 if op.get("final") else (op["v"] or 3))
            dv = torch.randint(0, int(k) + 1, tuple(c.delay.shape), generator=g).float() * cur["dt"]
            c.delay = dv.to(c.delay.dtype)
            cur["delay_seed_final"] = bool(op.get("final"))
            return {"delay_values": tuple(dv.flatten().tolist())}
        if a == "synapse":
            sk = (cfg["skind_new"] or cfg["skind"]) if op.get("final") else "exp"
            syn = synapse_ctor(sk, {"Q": 40.0, "tau": 5.0, "tau_r": 1.0})
            new = syn(c.synapse.shape, c.dt, c.synapse.delay, c.batchsz)
            c.synapse = new
            cur["skind"] = sk
            return {"synapse_type": type(new).__name__, "_identity": new}
        raise ValueError(a)

    def execute(self, desc, ctx):
        cfg = desc["config"]
        kind = cfg["kind"]
        X, Y = dict(cfg["X"]), dict(cfg["Y"])
        facts = {"kind": kind, "cls": cfg.get("base", {}).get("cls") or cfg.get("skind") or cfg.get("rkind"), "to64": cfg["to64"]}
        with ctx.impl("build", facts):
            Bm = self._build(cfg, X)
        ctx.log("config", kind, facts["cls"], X, Y)
        cur = dict(X)
        changed = 0
        # ---------------- drive B from X to Y, one assignment at a time
        sched = list(cfg["sched"])
        # connections: learned delays are expressed in steps of the *final* dt, so they (and their maximum) are re-asserted after the last dt
        # assignment; everywhere else the final delay / duration is an absolute time assigned once, before or after dt as the schedule has it
        last_dt = max((i for i, o in enumerate(sched) if o["attr"] == "dt"), default=-1)
        tail = [o for i, o in enumerate(sched) if i < last_dt and o.get("final") and o["attr"] in ("delay_k", "delay_values")] if kind in ("connection", "layer") else []
        sched = sched + [dict(o) for o in tail]
        if cfg["to64"]:
            sched.append({"attr": "to64"})      # components attached after the first .to() are converted by a final .to()
        for op in sched:
            before = self._getters(cfg, Bm)
            if op["attr"] == "refused":
                a, v = op["which"], op["v"]
                if a == "B":
                    v = int(v)
                if (a == "delay_k" and (v == 0.0 or (kind in ("connection", "layer") and not cfg.get("delayed")))) or (a == "duration_k" and kind == "record" and v == 0.0):
                    continue      # a legal value there
                tgt = Bm.rec if kind == "record" else (Bm.connection if kind == "layer" and a != "duration_k" else Bm)
                name = {"dt": "dt", "B": "batchsz", "delay_k": "delay", "duration_k": "duration"}[a]
                if a == "delay_k" and kind in ("connection", "layer"):
                    tgt = tgt.synapse
                refused = False
                try:
                    setattr(tgt, name, v)
                except (ValueError, TypeError, RuntimeError):
                    refused = True
                except Exception as e:      # noqa: BLE001
                    ctx.fail("unexpected_exception", dict(facts, op="refused assignment", attr=a, exc=type(e).__name__), f"{name} = {v} raised {type(e).__name__}: {e}")
                    return
                if not refused:
                    ctx.undecided += 1     # the value was accepted: nothing is promised about such a configuration
                    return
                ctx.fault("refused_assignment")
                ctx.judged += 1
                after = self._getters(cfg, Bm)
                for k in before:
                    if not _same(before[k], after[k]):
                        ctx.fail("refused_side_effect", dict(facts, attr=a, getter=k), f"{name} = {v} was refused but the reported {k} changed: {before[k]} -> {after[k]}")
                continue
            with ctx.impl("assignment", dict(facts, attr=op["attr"])) as reg:
                exp = self._apply(cfg, Bm, op, cur)
            if reg.waived:
                return
            if exp is None:
                continue
            ident = exp.pop("_identity", None)
            after = self._getters(cfg, Bm)
            ctx.log("set", op["attr"], op.get("v"))
            ctx.fault("setter_" + op["attr"])
            ctx.judged += 1
            for k, v in exp.items():
                if not _same(after.get(k), v):
                    ctx.fail("getter_after_set", dict(facts, attr=op["attr"], getter=k), f"after assigning {op['attr']}={op.get('v')} the getter {k} reports {after.get(k)} instead of {v}")
            if ident is not None:
                c = Bm if kind == "connection" else Bm.connection
                if c.synapse is not ident:
                    ctx.fail("getter_after_set", dict(facts, attr="synapse", getter="synapse"), "after connection.synapse = s the getter does not return s")
            for k in before:
                if k in exp or (op["attr"] == "to64"):
                    continue
                if k == "delayedby" and op["attr"] in ("synapse",):
                    continue
                if not _same(before[k], after[k]):
                    ctx.fail("other_getter_changed", dict(facts, attr=op["attr"], getter=k), f"assigning {op['attr']} changed the reported {k}: {before[k]} -> {after[k]}")
            if any(not _same(before.get(k), after.get(k)) for k in after):
                changed += 1
        # ---------------- replica A constructed directly in Y
        Yb = dict(Y)
        cfgA = dict(cfg)
        if kind in ("connection", "layer") and cfg["skind_new"]:
            cfgA["skind"] = cfg["skind_new"]
        with ctx.impl("build", facts):
            Am = self._build(cfgA, Yb)
            if kind in ("connection", "layer") and cfg["delayed"]:
                c = Am if kind == "connection" else Am.connection
                g = torch.Generator().manual_seed(cfg["wseed"] + 5)
                c.delay = torch.randint(0, int(Y["delay_k"]) + 1, tuple(c.delay.shape), generator=g).float() * Y["dt"]
            if cfg["to64"]:
                Am.to(torch.float64)
        ga, gb = self._getters(cfgA, Am), self._getters(cfg, Bm)
        ctx.judged += 1
        for k in ga:
            if not _same(ga[k], gb.get(k)):
                ctx.fail("reports_configuration", dict(facts, getter=k), f"setter-built component reports {k}={gb.get(k)}, constructor-built reports {ga[k]}")
        # ---------------- behaviour from a cleared state (first step materialises lazily shaped records)
        dtype = torch.float64 if cfg["to64"] else torch.float32
        with ctx.impl("clear", facts):
            for m in (Am, Bm):
                m.clear()
        nout = 0
        for t, op in enumerate(desc["ops"]):
            g = torch.Generator().manual_seed(op["seed"])
            oa, ob_ = self._drive(cfg, Am, Bm, Y, g, op, ctx, facts, dtype)
            ctx.step(1, Y["dt"])
            ctx.judged += 1
            for i, (a, b) in enumerate(zip(oa, ob_)):
                if (a is None) != (b is None) or (a is not None and (a.shape != b.shape or not _teq(a, b))):
                    ctx.fail("behaviour_differs", dict(facts, output=i, step=t), f"step {t} output {i}: constructor-built {None if a is None else a.flatten()[:6].tolist()} vs setter-built {None if b is None else b.flatten()[:6].tolist()}")
                if a is not None and bool((a != 0).any()):
                    nout += 1
            if t == 0:
                ra, rb = _records(Am), _records(Bm)
                if [(p, n, s, str(d)) for p, n, s, d in ra] != [(p, n, s, str(d)) for p, n, s, d in rb]:
                    diff = [x for x in zip(ra, rb) if (x[0][1:3] != x[1][1:3] or str(x[0][3]) != str(x[1][3]))]
                    ctx.fail("history_size", dict(facts, record=(diff[0][0][0].split(".")[-1] if diff else "count")),
                             f"internal histories differ: constructor-built {ra} vs setter-built {rb}")
                ctx.probe("records_compared", len(ra))
        ctx.nontrivial = changed > 0
        ctx.state((kind, facts["cls"], tuple(sorted(k for k in Y if X.get(k) != Y.get(k))), len(cfg["sched"]), cfg["to64"]))

    def _drive(self, cfg, Am, Bm, Y, g, op, ctx, facts, dtype):
        kind = cfg["kind"]
        B, dt = Y["B"], Y["dt"]
        outs = []
        for m in (Am, Bm):
            gg = torch.Generator().manual_seed(int(g.initial_seed()))
            o = []
            with ctx.impl("forward", facts):
                if kind == "neuron":
                    shape = tuple(cfg["base"]["shape"])
                    gap = cfg["base"]["thresh"] - cfg["base"]["rest"]
                    x = (torch.randn((B,) + shape, generator=gg) * gap * 2 + gap).to(dtype)
                    o.append(m(x))
                    o += [m.voltage, m.refrac]
                elif kind == "synapse":
                    shape = tuple(cfg["shape"])
                    x = torch.rand((B,) + shape, generator=gg) < op["p"]
                    args = [x] + ([torch.randn((B,) + shape, generator=gg).to(dtype)] if cfg["skind"] == "deltaplus" else [])
                    o.append(m(*args))
                    o.append(m.spike)
                    if op["query"]:
                        for sel in (torch.rand((B,) + shape, generator=gg) * Y["delay_k"] * dt, torch.full((B,) + shape, Y["delay_k"] * dt),
                                    torch.full((B,) + shape, Y["delay_k"] * dt + 2 * dt), torch.zeros((B,) + shape)):
                            o.append(m.current_at(sel.to(dtype)))
                            o.append(m.spike_at(sel.to(dtype)))
                elif kind in ("connection", "layer"):
                    x = torch.rand((B, cfg["nin"]), generator=gg) < op["p"]
                    if dtype == torch.float64:
                        x = x.to(dtype)       # spike inputs in the module's dtype (0/1 valued)
                    sk = cfg["skind_new"] or cfg["skind"]
                    if kind == "connection":
                        args = [x] + ([torch.randn((B, cfg["nin"]), generator=gg).to(dtype)] if sk == "deltaplus" else [])
                        o.append(m(*args))
                        o.append(m.syncurrent)
                        o.append(m.synspike)
                    else:
                        o.append(m(x))
                        o.append(m.neuron.voltage)
                elif kind == "record":
                    shape = tuple(cfg["shape"])
                    m.rec.push(torch.randn(shape, generator=gg).to(dtype))
                    o.append(m.rec.peek())
                    o.append(torch.tensor(float(m.rec.recordsz)))
                    if op["query"]:
                        lim = m.rec.dt * (m.rec.recordsz - 1)
                        for tq in (0.0, lim, lim * 0.4):
                            o.append(m.rec.select(tq, None, tolerance=1e-6))
                else:
                    shape = tuple(cfg["shape"])
                    x = (torch.rand((B,) + shape, generator=gg) < op["p"]).to(dtype)
                    m(x)
                    o.append(m.peek())
                    if op["query"]:
                        n = max(1, int(np.ceil(Y["duration_k"])))
                        for tq in (0.0, Y["duration_k"] * dt * 0.5, dt * (n - 1) if Y["duration_k"] else 0.0):
                            try:
                                o.append(m.view(tq))
                            except ValueError:
                                o.append(torch.tensor([-12345.0]))
                        o.append(m.dump())
            outs.append(o)
        return outs[0], outs[1]


def _same(a, b):
    if isinstance(a, float) or isinstance(b, float):
        try:
            return abs(float(a) - float(b)) <= 1e-12 * max(1.0, abs(float(b)))
        except (TypeError, ValueError):
            return a == b
    return a == b


def _teq(a, b):
    if a.dtype.is_floating_point:
        return bool(((a == b) | (a.isnan() & b.isnan())).all())
    return torch.equal(a, b)


WORLD = ConfigWorld()
