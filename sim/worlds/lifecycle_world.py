"""lifecycle_world (C15): trainer / monitor lifecycle op-and-fault sequences against a registration model,
with a control replica for isolation.

System A carries two trainers: T0 (the "victim", which receives the disruptive lifecycle operations: register /
delete cells and monitors, add monitors, clear, drop-last-reference-and-collect, re-create) and T1 (the "observer").
System B is the control: the same layer(s) with only T1.  Whatever happens to T0 in A, T1's monitors must record
exactly once per training-mode layer step and T1's contributions to the updaters must be bit-identical to B's.
Weights are never applied (updaters are read and cleared), so both systems see the same dynamics.
"""
from __future__ import annotations

import gc
import weakref

import numpy as np
import torch

from ..kernel import World, stream
from ..models.synapse import synapse_ctor

DTS = [1.0, 0.5, 2.0, 0.1, 1.3]
TKINDS = ["STDP", "STDP", "STDPn", "TripletSTDP", "MSTDPET", "MSTDP", "KernelSTDP", "LinearHomeostasis", "DelayAdjustedSTDP"]
MON_NAMES = {
    "STDP": {"trace_post", "spike_post", "trace_pre", "spike_pre"}, "STDPn": {"trace_post", "spike_post", "trace_pre", "spike_pre"},
    "MSTDP": {"trace_post", "spike_post", "trace_pre", "spike_pre"},
    "TripletSTDP": {"trace_post_fast", "trace_post_slow", "spike_post", "trace_pre_fast", "trace_pre_slow", "spike_pre"},
    "MSTDPET": {"trace_post", "spike_post", "trace_pre", "spike_pre", "elig_post", "elig_pre"},
    "KernelSTDP": {"spike_post", "spike_pre"}, "DelayAdjustedSTDP": {"spike_post", "spike_pre"}, "LinearHomeostasis": {"spike_rate"},
}


def _wgen(seed, shape):
    g = torch.Generator().manual_seed(seed)
    return torch.randint(0, 13, tuple(shape), generator=g).float() / 8.0


def _mk_trainer(kind, variant):
    from inferno import learn
    import inferno.functional as IF

    a, b = (0.05, -0.03) if variant == 0 else (0.11, -0.07)
    ta, tb = (10.0, 8.0) if variant == 0 else (6.0, 14.0)
    if kind == "STDP":
        return learn.STDP(a, b, tb, ta, batch_reduction=torch.sum)
    if kind == "STDPn":
        return learn.STDP(a, b, tb, ta, trace_mode="nearest", batch_reduction=torch.sum)
    if kind == "TripletSTDP":
        return learn.TripletSTDP(a, a / 2, b, -b / 2, tb, 30.0, ta, 25.0, batch_reduction=torch.sum)
    if kind == "MSTDPET":
        return learn.MSTDPET(a, b, tb, ta, 15.0, batch_reduction=torch.sum)
    if kind == "MSTDP":
        return learn.MSTDP(a, b, tb, ta, batch_reduction=torch.sum)
    if kind == "KernelSTDP":
        return learn.KernelSTDP(IF.exp_stdp_post_kernel, IF.exp_stdp_pre_kernel, dict(learning_rate=a, time_constant=ta), dict(learning_rate=b, time_constant=tb), batch_reduction=torch.sum)
    if kind == "DelayAdjustedSTDP":
        return learn.DelayAdjustedSTDP(a, b, ta, tb, batch_reduction=torch.sum)
    if kind == "LinearHomeostasis":
        return learn.LinearHomeostasis(0.02 * (variant + 1), 0.3, "weight", batch_reduction=torch.sum)
    raise ValueError(kind)


class _Sys:
    def __init__(self, cfg, with_t0):
        from inferno import neural as nn_

        self.cfg = cfg
        dt, B, ws = cfg["dt"], cfg["B"], cfg["wseed"]
        delay = 2 * dt if cfg["delays"] else None

        def conn(i, nin, nout):
            kw = dict(synapse=synapse_ctor("delta", {"Q": 40.0}), bias=True, delay=delay, batch_size=B, weight_init=lambda x: _wgen(ws + 3 * i, x.shape),
                      bias_init=lambda x: _wgen(ws + 3 * i + 1, x.shape) * 3.0)
            if delay is not None:
                kw["delay_init"] = lambda x: torch.randint(0, 3, tuple(x.shape), generator=torch.Generator().manual_seed(ws + 3 * i + 2)).float() * dt
            return nn_.LinearDense((nin,), (nout,), dt, **kw)

        def neuron(j, n):
            return nn_.LIF((n,), dt, rest_v=-60.0, reset_v=-65.0, thresh_v=-50.0, refrac_t=dt * (1 + j), time_constant=8.0, batch_size=B)

        n = cfg["width"]
        self.layout = cfg["layout"]
        if self.layout == "biclique":
            self.conns = [conn(0, 2, n), conn(1, 3, n)]
            self.neurons = [neuron(0, n), neuron(1, n)]
            self.layers = [nn_.Biclique([("c0", self.conns[0]), ("c1", self.conns[1])], [("n0", self.neurons[0]), ("n1", self.neurons[1])], "sum")]
            L = self.layers[0]
            self.cells = [L.get_cell("c0", "n0"), L.get_cell("c0", "n1"), L.get_cell("c1", "n0"), L.get_cell("c1", "n1")]
            self.cell_layer = [0, 0, 0, 0]
            self.cell_conn = [0, 0, 1, 1]
            self.cell_neuron = [0, 1, 0, 1]
            self.insz = [2, 3]
        elif self.layout == "recurrent":
            self.conns = [conn(0, 2, n), conn(1, n, n), conn(2, n, n)]       # feedfwd, lateral, feedback
            self.neurons = [neuron(0, n), neuron(1, n)]
            self.layers = [nn_.RecurrentSerial(self.conns[0], self.conns[1], self.conns[2], self.neurons[0], self.neurons[1], trainable_feedback=True)]
            L = self.layers[0]
            self.cells = [L.feedfwd_cell, L.lateral_cell, L.feedback_cell]
            self.cell_layer = [0, 0, 0]
            self.cell_conn = [0, 1, 2]
            self.cell_neuron = [0, 1, 0]
            self.insz = [2]
        else:
            self.conns = [conn(0, 2, n), conn(1, 2, n)]
            self.neurons = [neuron(0, n), neuron(1, n)]
            self.layers = [nn_.Serial(self.conns[0], self.neurons[0]), nn_.Serial(self.conns[1], self.neurons[1])]    # identical component names
            self.cells = [self.layers[0].cell, self.layers[1].cell]
            self.cell_layer = [0, 1]
            self.cell_conn = [0, 1]
            self.cell_neuron = [0, 1]
            self.insz = [2, 2]
        for c in self.conns:
            c.updater = c.defaultupdater()
        for L in self.layers:
            L.train()
        self.layer_training = [True for _ in self.layers]
        self.trainers = {}        # tag -> trainer
        self.kind = {}
        self.reg = {}             # tag -> {name: cell id}
        self.extra = {}           # tag -> {name: set(extra monitor names)}
        self.deleted = {}         # tag -> {name: set(deleted monitor names)}
        self.training = {}
        self.counts = {}          # (tag, serial) -> observations in the current step
        self.known = {}           # id(reducer) -> (tag, weakref to monitor, key)
        self.serial = 0

    def new_trainer(self, tag, kind, variant, cells):
        tr = _mk_trainer(kind, variant)
        self.trainers[tag] = tr
        self.kind[tag] = kind
        self.reg[tag], self.extra[tag], self.deleted[tag] = {}, {}, {}
        self.training[tag] = True
        tr.train()
        for j in cells:
            self.register(tag, j)
        return tr

    def register(self, tag, j):
        name = f"cell{j}"
        self.trainers[tag].register_cell(name, self.cells[j])
        self.reg[tag][name] = j
        self.extra[tag][name] = set()
        self.deleted[tag][name] = set()
        self.watch(tag)

    def watch(self, tag):
        """attach counting hooks to every reducer of a trainer's monitors (weak references only)"""
        tr = self.trainers[tag]
        for name in list(self.reg[tag]):
            for mname, mon in tr.named_monitors_of(name):
                red = mon.reducer
                if id(red) in self.known and self.known[id(red)][1]() is mon:
                    continue
                self.serial += 1
                key = (tag, self.serial)
                self.counts[key] = 0

                def hook(module, args, output, key=key, counts=self.counts):
                    counts[key] += 1
                red.register_forward_hook(hook)
                self.known[id(red)] = (tag, weakref.ref(mon), key)

    def note_births(self, tag, t):
        """remember at which step each monitor object of a trainer was first seen (weak references only)"""
        if tag not in self.trainers:
            return
        if not hasattr(self, "birth"):
            self.birth = {}
        for name in list(self.reg[tag]):
            for _mn, mon in self.trainers[tag].named_monitors_of(name):
                b = self.birth.get(id(mon))
                if b is None or b[0]() is not mon:
                    self.birth[id(mon)] = (weakref.ref(mon), t)

    def born(self, mon):
        b = getattr(self, "birth", {}).get(id(mon))
        return b[1] if b is not None and b[0]() is mon else None

    def expected_names(self, tag, name):
        return (MON_NAMES[self.kind[tag]] | self.extra[tag][name]) - self.deleted[tag][name]

    def live_monitor_keys(self, tag):
        """keys of monitors currently listed under a registered cell of the trainer: {key: layer index set}"""
        out = {}
        tr = self.trainers[tag]
        for name, j in self.reg[tag].items():
            for mname, mon in tr.named_monitors_of(name):
                k = self.known.get(id(mon.reducer))
                if k is not None and k[1]() is mon:
                    out.setdefault(k[2], set()).add(self.cell_layer[j])
        return out

    def forward_layers(self, seed, p):
        g = torch.Generator().manual_seed(seed)
        B = self.cfg["B"]
        xs = [torch.rand((B, n), generator=g) < p for n in self.insz]
        for k in self.counts:
            self.counts[k] = 0
        if self.layout == "biclique":
            self.layers[0]({"c0": (xs[0],), "c1": (xs[1],)})
        elif self.layout == "recurrent":
            self.layers[0](xs[0])
        else:
            for L, x in zip(self.layers, xs):
                L(x)

    def call_trainer(self, tag):
        """run one trainer step and return what it contributed to every updater (then clear the updaters)"""
        tr = self.trainers[tag]
        if self.kind[tag] in ("MSTDPET", "MSTDP"):
            tr(1.0)
        else:
            tr()
        out = []
        for c in self.conns:
            for p in c.updater.names:
                acc = getattr(c.updater, p)
                pos, neg = acc.pos, acc.neg
                out.append((None if pos is None else pos.detach().clone(), None if neg is None else neg.detach().clone()))
            c.updater.clear()
        # the trainer-level update must work too (nothing is pending any more, so parameters stay put)
        tr.update()
        return out

    def hooks_on_layers(self):
        return sum(len(L._forward_hooks) + len(L._forward_pre_hooks) for L in self.layers)


class LifecycleWorld(World):
    name = "lifecycle_world"
    real = ["inferno.learn CellTrainer / IndependentCellTrainer and all shipped trainers' register_cell", "MonitorPool / Observable aliasing", "Monitor register / deregister / train / eval gating",
            "Cell.local_remap / Layer._realign_attribute", "Biclique and Serial layers with shared neurons / connections"]
    stub = ["counting forward-hooks on the reducer modules (observation counter)"]
    state_measure = "distinct (layout, T0 kind, T1 kind, registered-cell sets, mode flags, T0 alive, last op)"
    rule = ("each run = layer layout (Biclique with shared neurons/connections, or two Serial layers with identical component names) + two trainers of seeded kinds + a seeded sequence over "
            "{register_cell, del_cell, add_monitor, del_monitor, trainer/layer train/eval, layer step + trainer step, clear, drop-last-reference-and-collect, re-create}; "
            "non-trivial = at least one disruptive op followed by a training-mode step; distinct = distinct event-log digests")

    def generate(self, seed, prop, tier):
        rc, ro = stream(seed, "config"), stream(seed, "ops")
        layout = rc.choice(["biclique", "biclique", "two_serial", "recurrent"])
        ncell = {"biclique": 4, "two_serial": 2, "recurrent": 3}[layout]
        t0, t1 = rc.choice(TKINDS), rc.choice(TKINDS)
        cfg = {"layout": layout, "dt": rc.choice(DTS), "B": rc.choice([1, 2]), "wseed": rc.randrange(1 << 30), "width": rc.choice([2, 3]),
               "t0": t0, "t1": t1, "v0": rc.choice([0, 1]), "v1": rc.choice([0, 1]), "delays": ("DelayAdjustedSTDP" in (t0, t1)) or rc.random() < 0.2}
        cfg["t1_cells"] = sorted(rc.sample(range(ncell), rc.randint(1, ncell)))
        cfg["t0_cells"] = sorted(rc.sample(range(ncell), rc.randint(0, ncell)))
        ops = []
        for _ in range(ro.randint(6, 36 if tier == "thorough" else 26)):
            r = ro.random()
            j = ro.randrange(ncell)
            if r < 0.42:
                ops.append({"op": "step", "seed": ro.randrange(1 << 30), "p": ro.choice([0.4, 0.7, 0.95])})
            elif r < 0.50:
                ops.append({"op": "reg", "cell": j})
            elif r < 0.58:
                ops.append({"op": "del_cell", "cell": j})
            elif r < 0.65:
                ops.append({"op": "del_monitor", "cell": j, "pick": ro.randrange(8)})
            elif r < 0.71:
                ops.append({"op": "add_monitor", "cell": j, "mname": ro.choice(["extra", "extra2", "spike_post"]), "attr": ro.choice(["neuron.voltage", "neuron.spike", "connection.synspike"]),
                            "unique": ro.random() < 0.4})
            elif r < 0.77:
                ops.append({"op": "t0_mode", "train": ro.random() < 0.5})
            elif r < 0.82:
                ops.append({"op": "t1_mode", "train": ro.random() < 0.6})
            elif r < 0.87:
                ops.append({"op": "layer_mode", "layer": ro.randrange(2), "train": ro.random() < 0.6})
            elif r < 0.91:
                ops.append({"op": "t0_clear"})
            elif r < 0.94:
                ops.append({"op": "t1_clear"})
            elif r < 0.97:
                ops.append({"op": "drop_t0"})
            else:
                ops.append({"op": "new_t0", "kind": ro.choice(TKINDS), "variant": ro.choice([0, 1]), "cells": sorted(ro.sample(range(ncell), ro.randint(1, ncell)))})
            if layout == "two_serial" and stream(seed, f"strip{len(ops)}").random() < 0.12:
                ops.append({"op": "strip", "cell": stream(seed, f"stripcell{len(ops)}").randrange(ncell)})
        ops.append({"op": "step", "seed": ro.randrange(1 << 30), "p": 0.8})
        return {"config": cfg, "ops": ops}

    # ------------------------------------------------------------------
    def execute(self, desc, ctx):
        from inferno import observe

        cfg = desc["config"]
        facts = {"layout": cfg["layout"], "t0": cfg["t0"], "t1": cfg["t1"], "same_kind": cfg["t0"] == cfg["t1"], "delays": cfg["delays"]}
        with ctx.impl("build", facts) as reg:
            A, Bc = _Sys(cfg, True), _Sys(cfg, False)
            A.new_trainer("t1", cfg["t1"], cfg["v1"], cfg["t1_cells"])
            Bc.new_trainer("t1", cfg["t1"], cfg["v1"], cfg["t1_cells"])
        if reg.waived:
            return
        with ctx.impl("second trainer on the layer", dict(facts, cells=len(cfg["t0_cells"]))) as reg:
            A.new_trainer("t0", cfg["t0"], cfg["v0"], cfg["t0_cells"])
        if reg.waived:
            return
        # system C: the same layer(s) with only a T0 whose cells are registered at the same moments but never deleted and whose monitors are
        # never touched - what every still-registered T0 cell must keep recording whatever happens to its sibling cells
        with ctx.impl("build", facts) as reg:
            Cc = _Sys(cfg, False)
            Cc.new_trainer("t0", cfg["t0"], cfg["v0"], cfg["t0_cells"])
        if reg.waived:
            return
        ctx.log("config", cfg["layout"], cfg["t0"], cfg["t1"], cfg["t0_cells"], cfg["t1_cells"])
        tstep = 0
        A.note_births("t0", tstep)
        Cc.note_births("t0", tstep)
        disruptive_seen = False
        nontrivial = False
        last = "init"
        ever = {"t0": set(cfg["t0_cells"]), "t1": set(cfg["t1_cells"])}      # cells ever registered per trainer
        kinds_t0 = {cfg["t0"]}

        def overlap():
            """an MSTDPET trainer has shared a cell with another trainer (its eligibility monitors resolve names through the cell)"""
            return bool(ever["t0"] & ever["t1"]) and ("MSTDPET" in kinds_t0 or cfg["t1"] == "MSTDPET")

        def check_listings(sys_, tag, where):
            tr = sys_.trainers[tag]
            f = dict(facts, trainer=tag, after=where)
            with ctx.impl("listings", f) as reg:
                cells = [c for c, _ in tr.cells]
                named = {k for k, _ in tr.named_monitors}
                mons = list(tr.monitors)
            if reg.waived:
                return
            want_cells = {id(sys_.cells[j]) for j in sys_.reg[tag].values()}
            if {id(c) for c in cells} != want_cells or len(cells) != len(want_cells):
                ctx.fail("cell_listing", f, f"{tag}.cells lists {len(cells)} cells, registered are {sorted(sys_.reg[tag])}")
            want_named = {(n, m) for n in sys_.reg[tag] for m in sys_.expected_names(tag, n)}
            if named != want_named:
                ctx.fail("monitor_listing", f, f"{tag}.named_monitors = {sorted(named)} expected {sorted(want_named)}")
            for n in sys_.reg[tag]:
                got = {m for m, _ in tr.named_monitors_of(n)}
                if got != sys_.expected_names(tag, n):
                    ctx.fail("monitor_listing", dict(f, cell=n), f"{tag}.named_monitors_of({n}) = {sorted(got)} expected {sorted(sys_.expected_names(tag, n))}")
            if len({id(m) for m in mons}) != len(mons):
                ctx.fail("monitor_listing", f, "trainer.monitors lists a monitor twice")

        def check_hooks(sys_, where):
            want = 0
            for tag in sys_.trainers:
                if sys_.training[tag]:
                    want += len(sys_.live_monitor_keys(tag))
            have = sys_.hooks_on_layers()
            ctx.judged += 1
            if have != want:
                ctx.fail("hook_count", dict(facts, after=where, have=have, want=want), f"after {where}: {have} monitor hooks on the layer(s), {want} live registered monitors in training-mode trainers")

        for op in desc["ops"]:
            name = op["op"]
            has_t0 = "t0" in A.trainers
            if name == "step":
                # ---- layers step in both systems, then each trainer steps
                with ctx.impl("layer step", dict(facts, mstdpet_overlap=overlap())) as reg:
                    A.forward_layers(op["seed"], op["p"])
                    Bc.forward_layers(op["seed"], op["p"])
                    Cc.forward_layers(op["seed"], op["p"])
                if reg.waived:
                    return
                ctx.step(1, cfg["dt"])
                tstep += 1
                if has_t0 and "t0" in Cc.trainers:
                    self._sibling_recording(ctx, dict(facts, after=last, mstdpet_overlap=overlap()), A, Cc)
                # exactly-once observation per monitor
                for sys_, sname in ((A, "A"), (Bc, "B")):
                    for tag in sys_.trainers:
                        live = sys_.live_monitor_keys(tag)
                        for rid, (t, wr, key) in list(sys_.known.items()):
                            if t != tag:
                                continue
                            if wr() is None:
                                continue
                            if key in live:
                                want = 1 if (sys_.training[tag] and all(sys_.layer_training[l] for l in live[key])) else 0
                                if sys_.training[tag] and not all(sys_.layer_training[l] for l in live[key]) and any(sys_.layer_training[l] for l in live[key]):
                                    continue   # pooled across layers in different modes: not pinned down
                            else:
                                want = 0
                            got = sys_.counts[key]
                            ctx.judged += 1
                            if got != want:
                                ctx.fail("observation_count", dict(facts, trainer=tag, system=sname, got=got, want=want, after=last, shared=len(live.get(key, ())) > 1 or self._shared(sys_, tag, key)),
                                         f"system {sname} trainer {tag}: a monitor recorded {got} observations in this layer step, expected {want} (trainer training={sys_.training[tag]}, layers training={sys_.layer_training}, last op {last})")
                            if want == 1:
                                nontrivial = nontrivial or disruptive_seen
                # own-cell data in pass-through monitors (in a helper so that no local keeps a trainer / monitor alive)
                self._own_cell_data(ctx, facts, A, Bc)
                for sys_, sname in ():
                    for tag, tr in sys_.trainers.items():
                        if not sys_.training[tag] or sys_.kind[tag] == "LinearHomeostasis":
                            continue
                        for nm, j in sys_.reg[tag].items():
                            if not sys_.layer_training[sys_.cell_layer[j]]:
                                continue
                            mons = dict(tr.named_monitors_of(nm))
                            cell = sys_.cells[j]
                            kind = sys_.kind[tag]
                            if kind in ("STDP", "STDPn", "MSTDP", "MSTDPET", "TripletSTDP") and "spike_post" in mons and "spike_post" not in sys_.extra[tag][nm]:
                                v = mons["spike_post"].peek()
                                ctx.judged += 1
                                if v is None or not torch.equal(v.bool(), cell.neuron.spike):
                                    ctx.fail("monitor_redirected", dict(facts, trainer=tag, system=sname, monitor="spike_post"), f"{tag}/{nm}.spike_post does not hold its own cell's neuron spikes")
                            if kind in ("STDP", "STDPn", "MSTDP", "MSTDPET", "TripletSTDP") and "spike_pre" in mons:
                                v = mons["spike_pre"].peek()
                                ctx.judged += 1
                                if v is None or not torch.equal(v.bool(), cell.connection.synspike.bool()):
                                    ctx.fail("monitor_redirected", dict(facts, trainer=tag, system=sname, monitor="spike_pre"), f"{tag}/{nm}.spike_pre does not hold its own cell's presynaptic spikes")
                # trainer steps: T0 (A only) first, then T1 in both; T1's contributions must agree with the control
                if has_t0:
                    with ctx.impl("trainer step", dict(facts, trainer="t0", after=last, mstdpet_overlap=overlap())) as reg:
                        A.call_trainer("t0")
                        if "t0" in Cc.trainers:
                            Cc.call_trainer("t0")
                    if reg.waived:
                        return
                with ctx.impl("trainer step", dict(facts, trainer="t1", after=last, mstdpet_overlap=overlap())) as reg:
                    ca = A.call_trainer("t1")
                    cb = Bc.call_trainer("t1")
                if reg.waived:
                    return      # a recorded known finding stopped the trainer step: the run ends here
                if not reg.waived:
                    ctx.judged += 1
                    for (pa, na), (pb, nb) in zip(ca, cb):
                        for x, y, w in ((pa, pb, "pos"), (na, nb, "neg")):
                            if (x is None) != (y is None) or (x is not None and (x.shape != y.shape or not torch.equal(x, y))):
                                ctx.fail("isolation", dict(facts, which=w, after=last, t0_alive=has_t0, mstdpet_overlap=overlap()),
                                         f"trainer T1's {w} contribution differs from the control system where T0 was never attached / disturbed (last op {last})")
                ctx.log("step", op["seed"], [None if p is None else p for p, _ in ca])
                last = "step"
                continue
            # ---------------- operations on both systems
            if name == "t1_mode":
                with ctx.impl("trainer.train/eval", dict(facts, trainer="t1")):
                    for s in (A, Bc):
                        s.trainers["t1"].train(op["train"])
                        s.training["t1"] = op["train"]
            elif name == "layer_mode":
                li = op["layer"] % len(A.layers)
                with ctx.impl("layer.train/eval", facts):
                    for s in (A, Bc, Cc):
                        s.layers[li].train(op["train"])
                        s.layer_training[li] = op["train"]
            elif name == "t1_clear":
                with ctx.impl("trainer.clear", dict(facts, trainer="t1")):
                    A.trainers["t1"].clear()
                    Bc.trainers["t1"].clear()
            # ---------------- operations on the victim trainer (system A only)
            elif name == "new_t0":
                if has_t0:
                    continue
                kind0 = op["kind"] if (cfg["delays"] or op["kind"] != "DelayAdjustedSTDP") else "STDP"
                with ctx.impl("second trainer on the layer", dict(facts, kind=kind0)) as reg:
                    A.new_trainer("t0", kind0, op["variant"], [j for j in op["cells"] if j < len(A.cells)])
                    Cc.new_trainer("t0", kind0, op["variant"], [j for j in op["cells"] if j < len(A.cells)])
                kinds_t0.add(kind0)
                ever["t0"] |= {j for j in op["cells"] if j < len(A.cells)}
                disruptive_seen = True
                ctx.fault("second_trainer_attached")
            elif not has_t0:
                continue
            elif name == "reg":
                nm = f"cell{op['cell']}"
                if nm in A.reg["t0"] or op["cell"] >= len(A.cells):
                    continue
                with ctx.impl("register_cell", dict(facts, trainer="t0")):
                    A.register("t0", op["cell"])
                    if nm in Cc.reg["t0"]:
                        # re-registration of a cell deleted earlier: its recording restarts now, in the reference too
                        Cc.trainers["t0"].del_cell(nm)
                        del Cc.reg["t0"][nm]
                    Cc.register("t0", op["cell"])
                ever["t0"].add(op["cell"])
                disruptive_seen = True
                ctx.fault("register_cell")
                if op["cell"] in A.reg["t1"].values():
                    ctx.probe("second_trainer_same_cell")
            elif name == "del_cell":
                nm = f"cell{op['cell']}"
                if nm not in A.reg["t0"]:
                    continue
                shared = self._cell_shares_monitor(A, "t0", nm)
                with ctx.impl("del_cell", dict(facts, trainer="t0")):
                    A.trainers["t0"].del_cell(nm)
                del A.reg["t0"][nm]
                disruptive_seen = True
                ctx.fault("del_cell")
                if shared:
                    ctx.probe("delete_cell_while_monitor_shared")
            elif name == "del_monitor":
                nm = f"cell{op['cell']}"
                if nm not in A.reg["t0"]:
                    continue
                names = sorted(A.expected_names("t0", nm))
                if not names:
                    continue
                mn = names[op["pick"] % len(names)]
                # deleting a monitor another monitor / the trainer's own step depends on is a user error; only extras and leaf recorders
                if mn in MON_NAMES[A.kind["t0"]]:
                    continue
                with ctx.impl("del_monitor", dict(facts, trainer="t0")):
                    A.trainers["t0"].del_monitor(nm, mn)
                A.extra["t0"][nm].discard(mn)
                disruptive_seen = True
                ctx.fault("del_monitor")
            elif name == "add_monitor":
                nm = f"cell{op['cell']}"
                if nm not in A.reg["t0"]:
                    continue
                dt = cfg["dt"]
                if op["mname"] in MON_NAMES[A.kind["t0"]]:
                    # replacing one of the trainer's own monitors is only meaningful as an equivalent, unique replacement:
                    # the cell gets its own pass-through recorder of its neuron's spikes; cells that pooled the old one keep it
                    if op["mname"] != "spike_post" or not op["unique"] or A.kind["t0"] == "LinearHomeostasis":
                        continue
                    shared = self._cell_shares_monitor(A, "t0", nm)
                    with ctx.impl("add_monitor(unique replacement)", dict(facts, trainer="t0")):
                        A.trainers["t0"].add_monitor(nm, "spike_post", "neuron.spike",
                                                     observe.StateMonitor.partialconstructor(reducer=observe.PassthroughReducer(dt, duration=0.0, inclusive=True), as_prehook=False,
                                                                                             train_update=True, eval_update=False, prepend=True),
                                                     True, dt=dt)
                        Cc.trainers["t0"].add_monitor(nm, "spike_post", "neuron.spike",
                                                      observe.StateMonitor.partialconstructor(reducer=observe.PassthroughReducer(dt, duration=0.0, inclusive=True), as_prehook=False,
                                                                                              train_update=True, eval_update=False, prepend=True),
                                                      True, dt=dt)
                    A.watch("t0")
                    disruptive_seen = True
                    ctx.fault("unique_monitor_replacement")
                    if shared:
                        ctx.probe("replace_monitor_while_shared")
                    ctx.log(name, {k: v for k, v in op.items() if k != "op"})
                    last = name
                    A.note_births("t0", tstep)
                    Cc.note_births("t0", tstep)
                    for sys_, sname in ((A, "A"), (Bc, "B")):
                        for tag in sys_.trainers:
                            check_listings(sys_, tag, name)
                        check_hooks(sys_, f"{name} (system {sname})")
                    continue
                with ctx.impl("add_monitor", dict(facts, trainer="t0")):
                    A.trainers["t0"].add_monitor(nm, op["mname"], op["attr"],
                                                 observe.StateMonitor.partialconstructor(reducer=observe.PassthroughReducer(dt, duration=0.0), as_prehook=False, train_update=True, eval_update=False, prepend=True),
                                                 op["unique"], dt=dt, attr_tag=op["attr"])
                A.extra["t0"][nm].add(op["mname"])
                A.watch("t0")
                disruptive_seen = True
                ctx.fault("add_monitor")
            elif name == "strip":
                # every monitor of one T0 cell is deleted one by one, then the cell's post-synaptic spike recorder is added again exactly as the
                # trainers add it (pooled, not unique): it must not turn out to be the monitor of a cell that lives in another layer; the cell
                # is then deleted (the trainer cannot step a cell without its monitors)
                nm = f"cell{op['cell']}"
                if nm not in A.reg["t0"] or A.kind["t0"] == "LinearHomeostasis":
                    continue
                dt = cfg["dt"]
                with ctx.impl("del_monitor (all of a cell)", dict(facts, trainer="t0")):
                    for mn in sorted(m for m, _ in A.trainers["t0"].named_monitors_of(nm)):
                        A.trainers["t0"].del_monitor(nm, mn)
                    A.trainers["t0"].add_monitor(nm, "spike_post", "neuron.spike",
                                                 observe.StateMonitor.partialconstructor(reducer=observe.PassthroughReducer(dt, duration=0.0, inclusive=True), as_prehook=False,
                                                                                         train_update=True, eval_update=False, prepend=True),
                                                 False, dt=dt)
                ctx.fault("cell_stripped_and_recorder_re_added")
                ctx.judged += 1
                self._foreign_monitor(ctx, dict(facts, after="strip"), A, nm)
                with ctx.impl("del_cell", dict(facts, trainer="t0")):
                    A.trainers["t0"].del_cell(nm)
                del A.reg["t0"][nm]
                disruptive_seen = True
            elif name == "t0_mode":
                with ctx.impl("trainer.train/eval", dict(facts, trainer="t0")):
                    A.trainers["t0"].train(op["train"])
                    Cc.trainers["t0"].train(op["train"])
                A.training["t0"] = op["train"]
                Cc.training["t0"] = op["train"]
                ctx.fault("mode_flap")
            elif name == "t0_clear":
                with ctx.impl("trainer.clear", dict(facts, trainer="t0")):
                    A.trainers["t0"].clear()
                    Cc.trainers["t0"].clear()
                disruptive_seen = True
                ctx.fault("trainer_clear")
            elif name == "drop_t0":
                # drop the last reference to the trainer and collect
                del A.trainers["t0"]
                del Cc.trainers["t0"]
                for d in (A.kind, A.reg, A.extra, A.deleted, A.training, Cc.kind, Cc.reg, Cc.extra, Cc.deleted, Cc.training):
                    d.pop("t0", None)
                gc.collect()
                disruptive_seen = True
                ctx.fault("trainer_collected_while_registered")
            ctx.log(name, {k: v for k, v in op.items() if k != "op"})
            last = name
            A.note_births("t0", tstep)
            Cc.note_births("t0", tstep)
            # ---------------- invariants after every op
            for sys_, sname in ((A, "A"), (Bc, "B")):
                for tag in sys_.trainers:
                    check_listings(sys_, tag, name)
                check_hooks(sys_, f"{name} (system {sname})")
            ctx.state((cfg["layout"], cfg["t0"] if has_t0 else None, cfg["t1"], tuple(sorted(A.reg.get("t0", {}))), tuple(sorted(A.reg["t1"])),
                       A.training.get("t0"), A.training["t1"], tuple(A.layer_training), name))
        ctx.nontrivial = nontrivial

    @staticmethod
    def _shared(sys_, tag, key):
        return False

    @staticmethod
    def _own_cell_data(ctx, facts, A, Bc):
        for sys_, sname in ((A, "A"), (Bc, "B")):
            for tag, tr in sys_.trainers.items():
                if not sys_.training[tag] or sys_.kind[tag] == "LinearHomeostasis":
                    continue
                for nm, j in sys_.reg[tag].items():
                    if not sys_.layer_training[sys_.cell_layer[j]]:
                        continue
                    mons = dict(tr.named_monitors_of(nm))
                    cell = sys_.cells[j]
                    kind = sys_.kind[tag]
                    if kind in ("STDP", "STDPn", "MSTDP", "MSTDPET", "TripletSTDP") and "spike_post" in mons and "spike_post" not in sys_.extra[tag][nm]:
                        v = mons["spike_post"].peek()
                        ctx.judged += 1
                        if v is None or not torch.equal(v.bool(), cell.neuron.spike):
                            ctx.fail("monitor_redirected", dict(facts, trainer=tag, system=sname, monitor="spike_post"), f"{tag}/{nm}.spike_post does not hold its own cell's neuron spikes")
                    if kind in ("STDP", "STDPn", "MSTDP", "MSTDPET", "TripletSTDP") and "spike_pre" in mons:
                        v = mons["spike_pre"].peek()
                        ctx.judged += 1
                        if v is None or not torch.equal(v.bool(), cell.connection.synspike.bool()):
                            ctx.fail("monitor_redirected", dict(facts, trainer=tag, system=sname, monitor="spike_pre"), f"{tag}/{nm}.spike_pre does not hold its own cell's presynaptic spikes")

    @staticmethod
    def _foreign_monitor(ctx, facts, A, nm):
        """no monitor listed under cell nm of T0 is the monitor object of a cell (of any trainer) that lives in another layer"""
        j = A.reg["t0"][nm]
        mine = {id(m): mn for mn, m in A.trainers["t0"].named_monitors_of(nm)}
        for tag, tr in A.trainers.items():
            for other, jo in A.reg[tag].items():
                if A.cell_layer[jo] == A.cell_layer[j]:
                    continue
                for mn, m in tr.named_monitors_of(other):
                    if id(m) in mine:
                        ctx.fail("monitor_redirected", dict(facts, monitor=mine[id(m)], trainer="t0"),
                                 f"T0 cell {nm} (layer {A.cell_layer[j]}): its monitor {mine[id(m)]} is the monitor object of {tag} cell {other} in layer {A.cell_layer[jo]}")
                        return

    @staticmethod
    def _sibling_recording(ctx, facts, A, Cc):
        """every cell still registered with T0 holds, in each of the trainer's own monitors, what the same cell holds in the reference
        system whose T0 never lost a cell or a monitor (in a helper so that no local keeps a trainer / monitor alive)"""
        kind = A.kind["t0"]
        for nm in A.reg["t0"]:
            if nm not in Cc.reg["t0"]:
                continue
            ma, mc = dict(A.trainers["t0"].named_monitors_of(nm)), dict(Cc.trainers["t0"].named_monitors_of(nm))
            # a pooled monitor kept alive by a cell the reference never lost has a longer history, and some monitors (eligibility) are fed by
            # the cell's other monitors: the cell is comparable only when every one of its monitors is as old as its counterpart
            if any(m in ma and m in mc and (A.born(ma[m]) is None or A.born(ma[m]) != Cc.born(mc[m])) for m in MON_NAMES[kind]):
                ctx.probe("sibling_reference_not_comparable")
                continue
            for mn in sorted(MON_NAMES[kind]):
                if mn not in ma or mn not in mc or mn in A.deleted["t0"][nm]:
                    continue
                va, vc = ma[mn].peek(), mc[mn].peek()
                ctx.judged += 1
                same = (va is None) == (vc is None) and (va is None or (va.shape == vc.shape and bool(((va == vc) | ((va != va) & (vc != vc))).all())))
                if not same:
                    if ctx.fail("isolation", dict(facts, which="recording", monitor=mn, t0_alive=True),
                                f"T0 cell {nm}: monitor {mn} holds {None if va is None else va.flatten()[:4].tolist()} but {None if vc is None else vc.flatten()[:4].tolist()} "
                                f"in the reference system where no sibling cell / monitor was ever removed (last op {facts.get('after')})"):
                        return

    @staticmethod
    def _cell_shares_monitor(sys_, tag, nm):
        tr = sys_.trainers[tag]
        mine = {id(m) for _, m in tr.named_monitors_of(nm)}
        for other in sys_.reg[tag]:
            if other != nm and mine & {id(m) for _, m in tr.named_monitors_of(other)}:
                return True
        return False


WORLD = LifecycleWorld()
