"""layer_world (C17): Serial / Biclique / RecurrentSerial against a hand-wired twin; clear() at every position.

The twin is the same set of components built a second time by the same seeded factory (deepcopy of inferno
layers is impossible) and called directly in the documented order.  clear() faults: the call must succeed, the
dynamic state must equal that of a freshly built layer carrying the same learned parameters / adaptations,
and replaying the recorded input prefix must reproduce the recorded outputs.
"""
from __future__ import annotations

import numpy as np
import torch

from ..kernel import World, stream
from ..models.synapse import synapse_ctor

DTS = [1.0, 0.5, 0.25, 2.0, 0.1, 1.3]
TRANSFORMS = {"id": lambda x: x, "half": lambda x: x * 0.5, "neg": lambda x: -x, "relu": lambda x: torch.relu(x), "plus1": lambda x: x + 1.0}


def _wgen(seed, shape):
    g = torch.Generator().manual_seed(seed)
    return torch.randint(-4, 13, tuple(shape), generator=g).float() / 8.0


class LayerWorld(World):
    name = "layer_world"
    real = ["inferno.neural Serial, Biclique, RecurrentSerial (forward, wiring, clear, capture_intermediate)", "LinearDense / LinearDirect connections, synapses, LIF / ALIF neurons"]
    stub = ["named transform / combine callables passed through the layers' public constructor arguments"]
    state_measure = "distinct (layer kind, combine, transforms, #connections, #neuron groups, clear position, steps)"
    rule = ("each run = one layer topology built from seeded components + a hand-wired twin + a seeded input sequence with clear() injected at seeded positions; "
            "non-trivial = at least one output spike and one clear; distinct = distinct event-log digests")

    def generate(self, seed, prop, tier):
        rc, ro = stream(seed, "config"), stream(seed, "ops")
        kind = rc.choice(["serial", "biclique", "biclique", "recurrent"])
        dt = rc.choice(DTS)
        B = rc.choice([1, 1, 2, 3])
        cfg = {"kind": kind, "dt": dt, "B": B, "wseed": rc.randrange(1 << 30), "adaptive": rc.random() < 0.4,
               "updaters": stream(seed, "updaters").random() < 0.4, "names": stream(seed, "names").random() < 0.4}   # custom component names       # trainable connections: an updater is attached (nothing is ever accumulated)
        # adaptation is frozen either by eval mode or, in training mode, by adapt=False handed through the layer's neuron kwargs
        cfg["freeze"] = "kwargs" if (cfg["adaptive"] and rc.random() < 0.6) else "eval"

        def conn(nin, nout, direct=False):
            dk = rc.choice([None, None, 1, 2])
            return {"in": nin, "out": nout, "skind": rc.choice(["delta", "exp", "deltaplus"]), "direct": direct, "delay_k": dk,
                    "bias": rc.random() < 0.4, "Q": 40.0, "tau": rc.choice([2.0, 5.0])}
        if kind == "serial":
            n = rc.choice([2, 3])
            cfg["conns"] = [conn(rc.choice([2, 3]), n)]
            cfg["neurons"] = [n]
            cfg["transform"] = rc.choice(["id", "id", "half", "relu"])
        elif kind == "biclique":
            n = rc.choice([2, 3])
            nc, nn_ = rc.choice([1, 2, 3]), rc.choice([1, 2])
            cfg["conns"] = [conn(rc.choice([2, 3]), n) for _ in range(nc)]
            cfg["neurons"] = [n] * nn_
            cfg["combine"] = rc.choice(["sum", "mean", "prod", "min", "max", "custom"])
            cfg["post_input"] = [rc.choice(["id", "id", "half", "neg", None]) for _ in range(nc)]
            cfg["pre_output"] = [rc.choice(["id", "half", "plus1", None]) for _ in range(nn_)]
        else:
            nf, nb = rc.choice([2, 3]), rc.choice([2, 3])
            cfg["conns"] = [conn(rc.choice([2, 3]), nf), conn(nf, nb), conn(nb, nf)]      # feedfwd, lateral, feedback
            cfg["neurons"] = [nf, nb]
            cfg["ff_t"], cfg["lat_t"], cfg["fb_t"] = rc.choice(["id", "half"]), rc.choice(["id", "half"]), rc.choice(["id", "neg", "half"])
            cfg["trainable_feedback"] = rc.random() < 0.5
        T = ro.randint(4, 24 if tier == "thorough" else 16)
        ops = []
        for t in range(T):
            if ro.random() < 0.15:
                ops.append({"op": "clear"})
            nin = len(cfg["conns"]) if kind == "biclique" else 1
            xs = []
            for ci in range(nin):
                c = cfg["conns"][ci]
                p = ro.choice([0.3, 0.6, 0.9])
                xs.append([1 if ro.random() < p else 0 for _ in range(B * c["in"])])
            ops.append({"op": "step", "x": xs, "capture": ro.random() < 0.4})
        if not any(o["op"] == "clear" for o in ops):
            ops.insert(ro.randint(1, len(ops)), {"op": "clear"})
        return {"config": cfg, "ops": ops}

    # ------------------------------------------------------------------ components
    def _components(self, cfg):
        from inferno import neural as nn_

        dt, B, ws = cfg["dt"], cfg["B"], cfg["wseed"]
        conns, neurons = [], []
        for i, c in enumerate(cfg["conns"]):
            syn = synapse_ctor(c["skind"], {"Q": c["Q"], "tau": c["tau"], "tau_r": 0.5})
            delay = None if c["delay_k"] is None else c["delay_k"] * dt
            kw = dict(synapse=syn, bias=c["bias"], delay=delay, batch_size=B,
                      weight_init=lambda x, i=i: _wgen(ws + 7 * i, x.shape), bias_init=lambda x, i=i: _wgen(ws + 7 * i + 1, x.shape) * 4.0)
            if delay is not None:
                kw["delay_init"] = lambda x, i=i, k=c["delay_k"]: (torch.randint(0, k + 1, tuple(x.shape), generator=torch.Generator().manual_seed(ws + 7 * i + 2)).float() * dt)
            conns.append(nn_.LinearDense((c["in"],), (c["out"],), dt, **kw))
            if cfg.get("updaters"):
                conns[-1].updater = conns[-1].defaultupdater()
        for j, n in enumerate(cfg["neurons"]):
            if cfg["adaptive"]:
                neurons.append(nn_.ALIF((n,), dt, rest_v=-60.0, reset_v=-65.0, thresh_eq_v=-50.0, refrac_t=2 * dt, tc_membrane=8.0 + j,
                                        tc_adaptation=20.0, spike_increment=1.0, batch_size=B))
            else:
                neurons.append(nn_.LIF((n,), dt, rest_v=-60.0, reset_v=-65.0, thresh_v=-50.0, refrac_t=dt * (1 + j), time_constant=8.0 + j, batch_size=B))
        return conns, neurons

    def _layer(self, cfg, conns, neurons):
        from inferno import neural as nn_

        kind = cfg["kind"]
        if kind == "serial":
            names = dict(connection_name="linear", neuron_name="cells") if cfg.get("names") else {}
            return nn_.Serial(conns[0], neurons[0], transform=(None if cfg["transform"] == "id" else (lambda x, **k: TRANSFORMS[cfg["transform"]](x))), **names)
        if kind == "biclique":
            cs = []
            for i, c in enumerate(conns):
                t = cfg["post_input"][i]
                cs.append((f"c{i}", c) if t is None else (f"c{i}", c, TRANSFORMS[t]))
            ns = []
            for j, n in enumerate(neurons):
                t = cfg["pre_output"][j]
                ns.append((f"n{j}", n) if t is None else (f"n{j}", n, TRANSFORMS[t]))
            combine = cfg["combine"]
            if combine == "custom":
                def combine(tensors, **kwargs):   # noqa: F811
                    vals = list(tensors.values())
                    return sum(vals) - vals[0] * 0.25
            return nn_.Biclique(cs, ns, combine)
        return nn_.RecurrentSerial(conns[0], conns[1], conns[2], neurons[0], neurons[1],
                                   feedfwd_out_transform=TRANSFORMS[cfg["ff_t"]], lateral_out_transform=TRANSFORMS[cfg["lat_t"]],
                                   feedback_out_transform=TRANSFORMS[cfg["fb_t"]], trainable_feedback=cfg["trainable_feedback"],
                                   **(dict(feedfwd_connection_name="ff_c", lateral_connection_name="lat_c", feedback_connection_name="fb_c", feedfwd_neuron_name="exc",
                                           feedback_neuron_name="inh") if cfg.get("names") else {}))

    # hand-wired reference: the documented order, components called directly
    def _manual_step(self, cfg, conns, neurons, xs, state):
        kind = cfg["kind"]
        nk = {"adapt": False} if cfg.get("freeze") == "kwargs" else {}
        if kind == "serial":
            cur = conns[0](xs[0])
            out = neurons[0](TRANSFORMS[cfg["transform"]](cur), **nk)
            return [out], [cur]
        if kind == "biclique":
            curs = [c(x) for c, x in zip(conns, xs)]
            tr = [TRANSFORMS[t or "id"](cu) for t, cu in zip(cfg["post_input"], curs)]
            stack = torch.stack(tr, 0)
            cm = cfg["combine"]
            if cm == "sum":
                comb = stack.sum(0)
            elif cm == "mean":
                comb = stack.mean(0)
            elif cm == "prod":
                comb = stack.prod(0)
            elif cm == "min":
                comb = stack.amin(0)
            elif cm == "max":
                comb = stack.amax(0)
            else:
                comb = sum(tr) - tr[0] * 0.25
            outs = [n(TRANSFORMS[t or "id"](comb), **nk) for n, t in zip(neurons, cfg["pre_output"])]
            return outs, curs
        # recurrent-serial: feedback spikes of the previous step, none on the first
        fb_prev = state.get("fb")
        if fb_prev is None:
            fb_prev = torch.zeros(cfg["B"], cfg["neurons"][1], dtype=torch.bool)
        ff_cur = conns[0](xs[0])
        fb_cur = conns[2](fb_prev)
        ff_sp = neurons[0](TRANSFORMS[cfg["ff_t"]](ff_cur) + TRANSFORMS[cfg["fb_t"]](fb_cur), **nk)
        lat_cur = conns[1](ff_sp)
        fb_sp = neurons[1](TRANSFORMS[cfg["lat_t"]](lat_cur), **nk)
        state["fb"] = fb_sp
        return [ff_sp, fb_sp], [ff_cur, lat_cur, fb_cur]

    @staticmethod
    def _dyn_state(module):
        """state dict entries (tensors and extras), flattened for comparison"""
        out = {}
        for k, v in module.state_dict().items():
            if isinstance(v, torch.Tensor):
                out[k] = v.detach().clone()
            else:
                out[k] = repr(dict(v)) if hasattr(v, "items") else repr(v)
        return out

    def execute(self, desc, ctx):
        cfg = desc["config"]
        kind, B = cfg["kind"], cfg["B"]
        facts = {"kind": kind, "combine": cfg.get("combine"), "B": B, "dt": cfg["dt"], "adaptive": cfg["adaptive"]}
        with ctx.impl("build", facts):
            conns, neurons = self._components(cfg)
            layer = self._layer(cfg, conns, neurons)
            tconns, tneurons = self._components(cfg)
        kwmode = cfg.get("freeze") == "kwargs"
        layer.train(kwmode)
        for m in tconns + tneurons:
            m.train(kwmode)
        nkw = {"adapt": False} if kwmode else None
        ctx.log("config", kind, cfg.get("combine"), B, cfg["dt"], [c["in"] for c in cfg["conns"]], cfg["neurons"], cfg.get("freeze"))
        tstate = {}
        recorded = []     # (xs, outputs) since the last clear
        nspk = 0
        nclear = 0

        def run_layer(xs, capture):
            if kind == "serial":
                r = layer(xs[0], capture_intermediate=capture, neuron_kwargs=nkw)
                if capture:
                    return [r[0]], [r[1]]
                return [r], None
            if kind == "biclique":
                r = layer({f"c{i}": (x,) for i, x in enumerate(xs)}, capture_intermediate=capture,
                          neuron_kwargs=(None if nkw is None else {f"n{j}": nkw for j in range(len(neurons))}))
                if capture:
                    return [r[0][f"n{j}"] for j in range(len(neurons))], [r[1][f"c{i}"] for i in range(len(conns))]
                return [r[f"n{j}"] for j in range(len(neurons))], None
            r = layer(xs[0], capture_intermediate=capture, feedfwd_neuron_kwargs=nkw, feedback_neuron_kwargs=nkw)
            if capture:
                keys = ("ff_c", "lat_c", "fb_c") if cfg.get("names") else ("feedfwd", "lateral", "feedback")     # intermediates are keyed by connection name
                return list(r[0]), [r[1][k] for k in keys]
            return list(r), None

        for pos, op in enumerate(desc["ops"]):
            if op["op"] == "clear":
                ctx.fault("layer_clear")
                nclear += 1
                with ctx.impl("layer.clear", facts) as reg:
                    layer.clear()
                if reg.waived:
                    return
                # twin: rebuild fresh components and give them the learned parameters / adaptations
                with ctx.impl("build", facts):
                    fconns, fneurons = self._components(cfg)
                    flayer = self._layer(cfg, fconns, fneurons)
                flayer.train(kwmode)
                for a, b in zip(neurons, fneurons):
                    if cfg["adaptive"]:
                        b.threshold_adaptation = a.threshold_adaptation.detach().clone()
                want, got = self._dyn_state(flayer), self._dyn_state(layer)
                ctx.judged += 1
                for k in want:
                    if k not in got:
                        ctx.fail("clear_state", dict(facts, key=k.split(".")[-1]), f"after clear() the layer lacks state entry {k}")
                    a, b = got[k], want[k]
                    same = torch.equal(a, b) if isinstance(a, torch.Tensor) and isinstance(b, torch.Tensor) and a.shape == b.shape else (a == b if not isinstance(a, torch.Tensor) else False)
                    if not same:
                        ctx.fail("clear_state", dict(facts, key=k.split(".")[-1]), f"after clear() state entry {k} differs from a freshly built layer: {a if not isinstance(a, torch.Tensor) else a.flatten()[:6].tolist()} vs {b if not isinstance(b, torch.Tensor) else b.flatten()[:6].tolist()}")
                for k in got:
                    if k not in want:
                        ctx.fail("clear_state", dict(facts, key=k.split(".")[-1]), f"after clear() the layer has a state entry a fresh layer lacks: {k}")
                # replay the recorded prefix: same inputs reproduce the same outputs
                if recorded and not cfg["adaptive"]:
                    for xs, outs in recorded:
                        with ctx.impl("replay step", facts):
                            o2, _ = run_layer(xs, False)
                        if any(not torch.equal(a, b) for a, b in zip(o2, outs)):
                            ctx.fail("replay_after_clear", facts, "replaying the same inputs after clear() produced different outputs")
                    ctx.probe("replayed_prefix")
                    with ctx.impl("layer.clear", facts):
                        layer.clear()
                # the hand-wired twin restarts as well
                tconns, tneurons = self._components(cfg)
                for m in tconns + tneurons:
                    m.train(kwmode)
                for a, b in zip(neurons, tneurons):
                    if cfg["adaptive"]:
                        b.threshold_adaptation = a.threshold_adaptation.detach().clone()
                tstate = {}
                recorded = []
                ctx.log("clear", pos)
                ctx.state((kind, cfg.get("combine"), "clear", pos))
                continue
            xs = [torch.tensor(x).reshape(B, cfg["conns"][i]["in"]).bool() for i, x in enumerate(op["x"])]
            with ctx.impl("layer forward", facts):
                outs, inter = run_layer(xs, op["capture"])
            with ctx.impl("hand-wired forward", facts):
                wouts, winter = self._manual_step(cfg, tconns, tneurons, xs, tstate)
            ctx.step(1, cfg["dt"])
            ctx.log("step", xs, outs)
            ctx.judged += 1
            for j, (a, b) in enumerate(zip(outs, wouts)):
                group = j
                nshape = (B, cfg["neurons"][min(j, len(cfg["neurons"]) - 1)])
                if tuple(a.shape) != nshape or a.dtype != torch.bool:
                    ctx.fail("output_shape", dict(facts, group=group), f"output {j} has shape {tuple(a.shape)} dtype {a.dtype}, expected bool {nshape}")
                if not torch.equal(a, b):
                    ctx.fail("wiring", dict(facts, group=group, step=len(recorded)), f"layer output {j} {a.int().tolist()} differs from the documented wiring {b.int().tolist()} at step {len(recorded)} since clear")
            if len(outs) != len(wouts):
                ctx.fail("wiring", facts, f"layer returned {len(outs)} outputs, expected {len(wouts)}")
            if inter is not None:
                ctx.probe("capture_intermediate")
                for i, (a, b) in enumerate(zip(inter, winter)):
                    if a.shape != b.shape or not torch.equal(a, b):
                        ctx.fail("intermediate", dict(facts, conn=i), f"captured connection output {i} differs from the hand-wired connection output")
            nspk += sum(int(o.any()) for o in outs)
            if cfg["adaptive"]:
                for j, (a, b) in enumerate(zip(neurons, tneurons)):
                    if not torch.equal(a.threshold_adaptation, b.threshold_adaptation):
                        ctx.fail("wiring", dict(facts, group=j, what="adaptation"), f"neuron group {j}: adaptation state differs from the hand-wired twin although both were told not to adapt")
            recorded.append((xs, [o.clone() for o in outs]))
            if kind == "recurrent" and len(recorded) == 1:
                ctx.probe("recurrent_first_step_no_feedback")
            ctx.state((kind, cfg.get("combine"), cfg.get("transform"), len(cfg["conns"]), len(cfg["neurons"]), min(len(recorded), 4)))
        ctx.nontrivial = nspk > 0 and nclear > 0


WORLD = LayerWorld()
