"""hook_world (C16): state-hook lifecycle state machine with object death as a fault.

A target module carries up to three hooks (probe StateHook subclasses and the shipped Clamping /
Normalization).  The seeded op list registers / deregisters / re-arms / calls / deletes them; after
every op the model  fires(call) <=> alive & registered & enabled(mode)  is compared with the call
counts, the pre/post position and the number of handles left on the module.
"""
from __future__ import annotations

import gc

import torch
import torch.nn as nn

from ..kernel import World, stream


def _mk_target(kind, w):
    import inferno

    class Target(inferno.Module):
        def __init__(self, w):
            inferno.Module.__init__(self)
            self.weight_ = nn.Parameter(w.clone(), False)
            self.register_buffer("buf", w.clone())
            self.calls = 0

        @property
        def weight(self):
            return self.weight_

        @weight.setter
        def weight(self, value):
            self.weight_.data = value

        def forward(self, x):
            self.calls += 1
            return x

    if kind == "deep":
        # the tensors sit two sub-objects below the hooked module (three-component attribute paths)
        class Outer(inferno.Module):
            def __init__(self):
                inferno.Module.__init__(self)
                self.inner = inferno.Module()
                self.inner.leaf = Target(w)
                self.calls = 0

            def forward(self, x):
                self.calls += 1
                return x

        return Outer()
    return Target(w)


def _rget(obj, path):
    for part in path.split("."):
        obj = getattr(obj, part)
    return obj


class HookWorld(World):
    name = "hook_world"
    real = ["inferno.Hook/ContextualHook/StateHook machinery", "inferno.neural.Clamping", "inferno.neural.Normalization",
            "inferno.Module (target)", "inferno.neural.LinearDense (target of shipped hooks in a share of runs)"]
    stub = ["probe StateHook subclass counting calls and recording whether forward had run"]
    state_measure = "distinct (per-hook (alive, registered, train_en, eval_en, pre), module.training, handles on module)"
    rule = ("each run = seeded target tensor + seeded list of hook lifecycle ops (create/register/deregister/double register/"
            "arm flags/mode switch/module call/manual call/delete+collect/perturb attribute); non-trivial = at least one module "
            "call with a registered hook; distinct = distinct event-log digests")

    def generate(self, seed, prop, tier):
        rc, ro = stream(seed, "config"), stream(seed, "ops")
        shape = rc.choice([[3], [2, 3], [3, 2, 2], [4, 4]])
        cfg = {"shape": shape, "target": rc.choice(["toy", "toy", "dense"]), "tseed": rc.randrange(1 << 30), "deep": stream(seed, "deep").random() < 0.35}
        if cfg["target"] == "dense":
            shape = cfg["shape"] = [2, 3]   # the weight of the 3 -> 2 dense connection
        ops = []
        nslots = 3
        n = ro.randint(4, 40 if tier == "thorough" else 30)
        for _ in range(n):
            r = ro.random()
            i = ro.randrange(nslots)
            if r < 0.14:
                kind = ro.choice(["probe", "probe", "clamp", "norm", "plain"])
                op = {"op": "create", "i": i, "kind": kind, "train": ro.random() < 0.7, "eval": ro.random() < 0.7,
                      "pre": ro.random() < 0.4, "prepend": ro.random() < 0.3, "register": ro.random() < 0.6}
                if kind == "plain":
                    op["both"] = ro.random() < 0.5      # a plain Hook may carry a pre- and a post-callable at once
                if kind == "clamp":
                    lo = ro.choice([None, -1.0, 0.0, 0.25])
                    hi = ro.choice([None, 0.5, 1.0, 2.0])
                    if lo is None and hi is None:
                        lo = 0.0
                    if lo is not None and hi is not None and hi <= lo:
                        hi = lo + 1.0
                    op.update(min=lo, max=hi, attr=ro.choice(["weight", "buf"]))
                if kind == "norm":
                    nd = len(shape)
                    dim = ro.choice([None, -1, 0, nd - 1] + ([[0, nd - 1]] if nd > 1 else []))
                    op.update(order=ro.choice([1, 2, 2, 3, 0.5, "inf"]), scale=ro.choice([1.0, 2.5, -3.0, 0.1]), dim=dim,
                              attr=ro.choice(["weight", "buf"]))
                ops.append(op)
            elif r < 0.24:
                ops.append({"op": "register", "i": i})
            elif r < 0.33:
                ops.append({"op": "deregister", "i": i})
            elif r < 0.39:
                ops.append({"op": "set_train", "i": i, "v": ro.random() < 0.5})
            elif r < 0.45:
                ops.append({"op": "set_eval", "i": i, "v": ro.random() < 0.5})
            elif r < 0.53:
                ops.append({"op": "mode", "train": ro.random() < 0.5})
            elif r < 0.78:
                ops.append({"op": "call"})
            elif r < 0.85:
                ops.append({"op": "manual", "i": i, "force": ro.random() < 0.4, "ignore_mode": ro.random() < 0.4})
            elif r < 0.93:
                ops.append({"op": "delete", "i": i, "collect": stream(seed, f"collect{len(ops)}").random() < 0.5})
            else:
                ops.append({"op": "perturb", "pseed": ro.randrange(1 << 30), "zero_row": ro.random() < 0.3, "scale": ro.choice([0.5, 3.0, 10.0])})
        return {"config": cfg, "ops": ops}

    def execute(self, desc, ctx):
        was = gc.isenabled()
        gc.disable()        # object death happens exactly where the run description says (explicit collector passes only)
        try:
            return self._execute(desc, ctx)
        finally:
            if was:
                gc.enable()

    def _execute(self, desc, ctx):
        from inferno import StateHook
        from inferno.neural import Clamping, Normalization

        cfg = desc["config"]
        shape = cfg["shape"]
        g = torch.Generator().manual_seed(cfg["tseed"])
        w0 = torch.randn(shape, generator=g) * 2.0
        if cfg["target"] == "dense":
            from inferno.neural import LinearDense, DeltaCurrent

            class Conn(LinearDense):
                calls = 0

                def forward(self, *a, **k):
                    self.calls += 1
                    return LinearDense.forward(self, *a, **k)

            with ctx.impl("LinearDense()"):
                target = Conn((3,), (2,), 1.0, synapse=DeltaCurrent.partialconstructor(1.0), weight_init=lambda x: torch.randn(x.shape, generator=g) * 2.0)
            tshape = [2, 3]
            attrs = {"weight": "weight", "buf": "weight"}
            inp = torch.zeros(1, 3)
        else:
            deep = bool(cfg.get("deep"))
            target = _mk_target("deep" if deep else "toy", w0)
            tshape = shape
            attrs = {"weight": "inner.leaf.weight", "buf": "inner.leaf.buf"} if deep else {"weight": "weight", "buf": "buf"}
            inp = torch.zeros(1)
        target.train()
        log = {}  # slot -> list of (calls_seen_at_hook_time)

        def make_probe(slot, **kw):
            rec = log.setdefault(slot, [])

            class Probe(StateHook):
                def hook(self, module):
                    rec.append(module.calls)

            return Probe(target, **kw)

        hooks = {}     # slot -> live hook object
        model = {}     # slot -> dict(alive, registered, train, eval, pre, kind, ...)
        fired_expect = {}  # slot -> expected number of firings (probe)

        def live_registered():
            return sum(m.get("handles", 1) for m in model.values() if m["alive"] and m["registered"])

        def check_handles(where):
            n = len(target._forward_hooks) + len(target._forward_pre_hooks)
            want = live_registered()
            if n != want:
                ctx.fail("dangling_handle", {"op": where, "have": n, "want": want},
                         f"after {where}: {n} hook handles on the module, {want} live registered hooks")
            for s, m in model.items():
                if m["alive"] and hooks[s].registered != m["registered"]:
                    ctx.fail("registered_flag", {"op": where}, f"hook {s}.registered={hooks[s].registered}, model {m['registered']}")
            ctx.state((tuple(sorted((str(s)[:1], m["alive"], m["registered"], m["train"], m["eval"], m["pre"], m["kind"]) for s, m in model.items() if m["alive"])), target.training, n))

        def check_counts(where):
            for s, want in fired_expect.items():
                have = len(log.get(s, []))
                if have != want:
                    ctx.fail("fire_count", {"op": where, "kind": model[s]["kind"], "alive": model[s]["alive"], "registered": model[s]["registered"],
                                            "train_en": model[s]["train"], "eval_en": model[s]["eval"], "training": target.training},
                             f"after {where}: probe hook {s} fired {have} times, model says {want}")

        def enabled(m):
            return (m["train"] and target.training) or (m["eval"] and not target.training)

        def attr_value(m):
            return _rget(target, attrs[m["attr"]]).detach().clone()

        def check_post(m, s, where):
            """post-condition of a shipped hook that has just run"""
            v = attr_value(m)
            ctx.judged += 1
            if m["kind"] == "clamp":
                lo, hi = m["min"], m["max"]
                if (lo is not None and bool((v < lo).any())) or (hi is not None and bool((v > hi).any())):
                    ctx.fail("clamp_postcondition", {"op": where, "min": lo, "max": hi}, f"after clamping hook ran: values {v.flatten().tolist()} outside [{lo},{hi}]")
            else:
                p = float("inf") if m["order"] == "inf" else float(m["order"])
                dim = m["dim"]
                d = tuple(dim) if isinstance(dim, list) else dim
                before = m["_before"]
                nb = torch.linalg.vector_norm(before.double(), ord=p, dim=d)
                na = torch.linalg.vector_norm(v.double(), ord=p, dim=d)
                zero = nb == 0
                want = torch.where(zero, torch.zeros_like(nb), torch.full_like(nb, abs(m["scale"])))
                tiny = (nb > 0) & (nb < 1e-6)
                bad = (~tiny) & ((na - want).abs() > 1e-4 * (1 + want.abs()))
                if bool(bad.any()):
                    ctx.fail("norm_postcondition", {"op": where, "order": m["order"], "dim": dim, "scale": m["scale"]},
                             f"after normalisation hook ran: p-norms {na.flatten().tolist()} expected {want.flatten().tolist()}")
                if bool(zero.any()):
                    ctx.probe("zero_vector_normalised")

        ctx.log("config", cfg["target"], shape)
        for op in desc["ops"]:
            name = op["op"]
            s = op.get("i")
            if name == "create":
                # replacing a slot kills the previous occupant (last reference dropped)
                if s in hooks:
                    old = model[s]
                    del hooks[s]
                    old_alive = old["alive"]
                    old["alive"] = False
                    if old_alive and old["registered"]:
                        ctx.fault("hook_collected_while_registered")
                    old["registered"] = False
                    gc.collect()
                    # retire the model entry under a tombstone key so counts stay checked
                    tomb = f"{s}-dead{len(model)}"
                    model[tomb] = old
                    if s in fired_expect:
                        fired_expect[tomb] = fired_expect.pop(s)
                        log[tomb] = log.pop(s)
                    del model[s]
                kw = dict(train_update=op["train"], eval_update=op["eval"], as_prehook=op["pre"], prepend=op["prepend"])
                m = {"alive": True, "registered": False, "train": op["train"], "eval": op["eval"], "pre": op["pre"], "kind": op["kind"]}
                with ctx.impl("create hook", {"kind": op["kind"]}):
                    if op["kind"] == "plain":
                        from inferno import Hook

                        rec = log.setdefault(s, [])
                        rec.clear()
                        both = op.get("both", False)
                        pre_fn = (lambda module, args, rec=rec: rec.append(("pre", module.calls)))
                        post_fn = (lambda module, args, output, rec=rec: rec.append(("post", module.calls)))
                        use_pre = both or op["pre"]
                        use_post = both or not op["pre"]
                        hooks[s] = Hook(prehook=pre_fn if use_pre else None, posthook=post_fn if use_post else None,
                                        prehook_kwargs={"prepend": op["prepend"]} if use_pre else None, posthook_kwargs={"prepend": op["prepend"]} if use_post else None,
                                        train_update=op["train"], eval_update=op["eval"])
                        m["handles"] = 2 if both else 1
                        m["both"] = both
                        fired_expect[s] = 0
                    elif op["kind"] == "probe":
                        hooks[s] = make_probe(s, **kw)
                        fired_expect[s] = 0
                        log[s] = log.get(s, [])
                        log[s].clear()
                    elif op["kind"] == "clamp":
                        hooks[s] = Clamping(target, attrs[op["attr"]], min=op["min"], max=op["max"], **kw)
                        m.update(min=op["min"], max=op["max"], attr=op["attr"])
                    else:
                        order = float("inf") if op["order"] == "inf" else op["order"]
                        dim = tuple(op["dim"]) if isinstance(op["dim"], list) else op["dim"]
                        hooks[s] = Normalization(target, attrs[op["attr"]], order, op["scale"], dim, **kw)
                        m.update(order=op["order"], scale=op["scale"], dim=op["dim"], attr=op["attr"])
                model[s] = m
                if op["register"]:
                    with ctx.impl("register"):
                        if op["kind"] == "plain":
                            hooks[s].register(target)
                        else:
                            hooks[s].register()
                    m["registered"] = True
                ctx.log("create", s, op["kind"], op["register"])
            elif name == "register":
                if s not in hooks:
                    continue
                m = model[s]
                if m["registered"]:
                    ctx.probe("double_register")
                else:
                    if "was_registered" in m:
                        ctx.probe("re_register_after_deregister")
                if m["kind"] == "plain" and m["registered"]:
                    # a plain Hook refuses a second registration (documented RuntimeError) and must stay registered once
                    try:
                        hooks[s].register(target)
                        ctx.fail("double_register_accepted", {"kind": "plain"}, "a registered Hook accepted a second register()")
                    except RuntimeError:
                        pass
                    ctx.log("register", s)
                    check_handles(name)
                    continue
                with ctx.impl("register"):
                    if m["kind"] == "plain":
                        hooks[s].register(target)
                    else:
                        hooks[s].register()
                m["registered"] = True
                ctx.log("register", s)
            elif name == "deregister":
                if s not in hooks:
                    continue
                m = model[s]
                with ctx.impl("deregister"):
                    hooks[s].deregister()
                if m["registered"]:
                    m["was_registered"] = True
                m["registered"] = False
                ctx.log("deregister", s)
            elif name in ("set_train", "set_eval"):
                if s not in hooks:
                    continue
                if name == "set_train":
                    hooks[s].trainexec = op["v"]
                    model[s]["train"] = op["v"]
                else:
                    hooks[s].evalexec = op["v"]
                    model[s]["eval"] = op["v"]
                ctx.log(name, s, op["v"])
            elif name == "mode":
                target.train(op["train"])
                ctx.log("mode", op["train"])
            elif name == "perturb":
                gp = torch.Generator().manual_seed(op["pseed"])
                for a in set(attrs.values()):
                    v = torch.randn(tshape, generator=gp) * op["scale"]
                    if op["zero_row"]:
                        v[0] = 0.0
                        if len(tshape) == 1:
                            v[:] = 0.0
                    owner = _rget(target, a.rpartition(".")[0]) if "." in a else target
                    setattr(owner, a.rpartition(".")[2], v) if not a.endswith("buf") else owner.buf.copy_(v)
                ctx.log("perturb", op["pseed"])
            elif name == "call":
                before_calls = target.calls
                firing = [(k, m) for k, m in model.items() if m["alive"] and m["registered"] and enabled(m)]
                shipped = [(k, m) for k, m in firing if m["kind"] in ("clamp", "norm")]
                snap = {a: _rget(target, a).detach().clone() for a in set(attrs.values())}
                for k, m in shipped:
                    m["_before"] = snap[attrs[m["attr"]]]
                with ctx.impl("module call"):
                    target(inp)
                ctx.step(1)
                ctx.log("call", [k for k, _ in firing if isinstance(k, int)])
                if any(m["alive"] and m["registered"] for m in model.values()):
                    ctx.nontrivial = True
                for k, m in firing:
                    if m["kind"] == "plain":
                        n_new = 2 if m.get("both") else 1
                        fired_expect[k] += n_new
                        rec = log[k][-n_new:] if len(log[k]) >= n_new else []
                        want = ([("pre", before_calls), ("post", before_calls + 1)] if m.get("both") else
                                [("pre", before_calls)] if m["pre"] else [("post", before_calls + 1)])
                        if rec and rec != want:
                            ctx.fail("hook_position", {"pre": m["pre"], "kind": "plain"}, f"plain hook {k} ran as {rec}, expected {want}")
                    if m["kind"] == "probe":
                        fired_expect[k] += 1
                        rec = log[k]
                        if rec:
                            seen = rec[-1]
                            want_seen = before_calls if m["pre"] else before_calls + 1
                            if seen != want_seen:
                                ctx.fail("hook_position", {"pre": m["pre"]}, f"hook {k} configured pre={m['pre']} ran when forward count was {seen} (call started at {before_calls})")
                if len(shipped) == 1:
                    k, m = shipped[0]
                    check_post(m, k, "call")
                    ctx.probe("shipped_hook_ran")
                if not shipped:
                    # no shipped hook armed: attributes must be untouched by the call
                    for a, v in snap.items():
                        if not torch.equal(_rget(target, a).detach(), v):
                            ctx.fail("ran_when_not_armed", {"attr": a, "training": target.training}, f"attribute {a} changed by a call with no armed hook")
                check_counts("call")
            elif name == "manual":
                if s not in hooks or model[s]["kind"] == "plain":
                    continue
                m = model[s]
                runs = (m["registered"] or op["force"]) and (op["ignore_mode"] or enabled(m))
                if m["kind"] != "probe":
                    m["_before"] = attr_value(m)
                with ctx.impl("manual call"):
                    hooks[s](force=op["force"], ignore_mode=op["ignore_mode"])
                ctx.log("manual", s, op["force"], op["ignore_mode"], runs)
                if m["kind"] == "probe":
                    if runs:
                        fired_expect[s] += 1
                    ctx.probe("manual_runs" if runs else "manual_blocked")
                    check_counts("manual")
                else:
                    if runs:
                        check_post(m, s, "manual")
                    elif not torch.equal(attr_value(m), m["_before"]):
                        ctx.fail("ran_when_not_armed", {"op": "manual", "force": op["force"], "ignore_mode": op["ignore_mode"]}, "manual call changed the attribute although it must not run")
            elif name == "delete":
                if s not in hooks:
                    continue
                m = model[s]
                if m["registered"]:
                    ctx.fault("hook_collected_while_registered")
                else:
                    ctx.fault("hook_collected")
                del hooks[s]
                if op.get("collect", True):
                    gc.collect()
                else:
                    # last reference dropped, no collector pass: the hook holds no reference cycle, so it is finalised at once
                    ctx.fault("hook_dropped_without_collector_pass")
                m["alive"] = False
                m["registered"] = False
                tomb = f"{s}-dead{len(model)}"
                model[tomb] = m
                del model[s]
                if s in fired_expect:
                    fired_expect[tomb] = fired_expect.pop(s)
                    log[tomb] = log.pop(s)
                ctx.log("delete", s)
            check_handles(name)


WORLD = HookWorld()
