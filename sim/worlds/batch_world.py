"""batch_world (C11): one replica with batch size B and B identically parameterised batch-1 replicas, stepped in
lock-step; after every event replica 0's slice b must equal replica b ("replicas never diverge").

Replicas are built by re-running the same seeded factory (deepcopy of inferno modules is impossible) and
parameters are part of the run description, never drawn inside a factory.  Levels: neuron (8 classes, adaptation
frozen), synapse (4 classes incl. delayed reads), connection (4 kinds, with/without delays), layer
(Serial / Biclique / RecurrentSerial) and trainer (batched sum-reduced training step == sum of per-sample steps).
"""
from __future__ import annotations

import numpy as np
import torch

from ..kernel import World, run_seed, stream
from . import connection_world, layer_world, neuron_world, synapse_world, trainer_world

DYADIC_DT = [1.0, 0.5, 0.25, 2.0]


def _f64(t):
    return t.detach().to(torch.float64).cpu().numpy()


class BatchWorld(World):
    name = "batch_world"
    real = ["all eight neuron classes", "all four synapse classes", "LinearDense/Direct/Lateral/Conv2D", "Serial/Biclique/RecurrentSerial", "STDP-family and delay-adjusted trainers with batch_reduction=sum"]
    stub = ["scripted neuron stub in the trainer level only (same as trainer_world)"]
    state_measure = "distinct (level, component kinds, B, delays, steps, clear seen)"
    rule = ("each run = one component configuration (reusing the seeded factories of the other worlds) instantiated once with batch size B and B times with batch size 1, "
            "a seeded per-sample input sequence and clear() events applied to all replicas; non-trivial = B >= 2 and at least one spike; distinct = distinct event-log digests")

    def generate(self, seed, prop, tier):
        rc, ro = stream(seed, "config"), stream(seed, "ops")
        level = rc.choice(["neuron", "neuron", "synapse", "connection", "connection", "layer", "layer", "trainer", "trainer"])
        B = rc.choice([2, 2, 3, 4])
        sub = rc.randrange(1 << 62)
        if level == "neuron":
            c = neuron_world.WORLD.generate(sub, "C03", tier)["config"]
            c["refrac_k"] = c["refrac_k"] if c["refrac_k"] else 1
            c["refrac_t"] = c["refrac_k"] * c["dt"]
        elif level == "synapse":
            c = synapse_world.WORLD.generate(sub, "C04", tier)["config"]
        elif level == "connection":
            c = connection_world.WORLD.generate(sub, rc.choice(["C05", "C06"]), tier)["config"]
            if "kmax" in c and "delay_k" not in c:
                c["delay_k"] = [0.0] * connection_world.ConnectionWorld._nsyn(c)
        elif level == "layer":
            c = layer_world.WORLD.generate(sub, "C17", tier)["config"]
            c["dt"] = rc.choice(DYADIC_DT)
            for cc in c["conns"]:
                cc["skind"] = rc.choice(["delta", "deltaplus"])     # exact reductions: bit-exact comparison (DESIGN 3.3)
                cc["Q"] = 32.0 * c["dt"]
        else:
            for _ in range(50):
                c = trainer_world.WORLD.generate(rc.randrange(1 << 62), rc.choice(["C08", "C18"]), tier)["config"]
                if not c["trainer"].startswith("cross") and "tiny" not in c:
                    break
            c["reduce"] = "sum"
            c["neuron"] = "script"
            if c.get("reward") == "persample":
                c["reward"] = "scalar"
        c["B"] = B
        # the batched replica either is constructed with batch size B or reaches it through the batchsz setter after a probe step
        cfg = {"level": level, "B": B, "c": c, "resized_from": rc.choice([None, None, 1, 1, 2]) if level in ("neuron", "synapse", "connection", "layer") else None}
        # the neuron batchsz setter resets the neuron itself: half of the resized neuron replicas are used as the setter leaves them
        cfg["clear_after_resize"] = stream(seed, "resize").random() < 0.5
        cfg["kwfreeze"] = stream(seed, "freeze").random() < 0.5
        T = ro.randint(4, 20 if tier == "thorough" else 14)
        ops = []
        for t in range(T):
            if ro.random() < 0.1:
                ops.append({"op": "clear"})
            ops.append({"op": "step", "seed": ro.randrange(1 << 30), "p": ro.choice([0.2, 0.5, 0.8]), "mu": ro.choice([0.0, 1.0, 2.0]),
                        "signal": ro.choice([1.0, -1.0, 0.5]), "query": ro.random() < 0.4})
        return {"config": cfg, "ops": ops}

    # ------------------------------------------------------------------
    def execute(self, desc, ctx):
        cfg = desc["config"]
        return getattr(self, "_exec_" + cfg["level"])(desc, ctx)

    @staticmethod
    def _resize(ctx, facts, obj, B, probe):
        """bring a replica built with another batch size to B through the public batchsz setters (after one probe step)"""
        with ctx.impl("batchsz setter", facts):
            probe()
            targets = obj if isinstance(obj, (list, tuple)) else [obj]
            for t in targets:
                t.batchsz = B
        ctx.fault("batch_resized_after_probe_step")

    def _cmp(self, ctx, facts, what, big, singles, exact=True, tol=None, knife=None):
        """big: tensor with leading batch dim; singles: list of tensors with leading dim 1"""
        ctx.judged += 1
        for b, s in enumerate(singles):
            a = big[b:b + 1]
            if tuple(a.shape) != tuple(s.shape):
                ctx.fail("shape_mismatch", dict(facts, what=what), f"{what}: batched slice shape {tuple(a.shape)} vs single {tuple(s.shape)}")
                return
            if exact:
                same = torch.equal(a, s) if not a.dtype.is_floating_point else bool(((a == s) | (a.isnan() & s.isnan())).all())
            else:
                d = (a.double() - s.double()).abs()
                same = bool((d <= 2e-5 + 2e-4 * s.double().abs()).all())
            if not same:
                i = torch.nonzero(a != s)
                ctx.fail("sample_interaction", dict(facts, what=what, sample=b),
                         f"{what}: sample {b} of the batched run = {a.flatten()[:6].tolist()} but the same sample run alone = {s.flatten()[:6].tolist()}")

    # ---- neurons
    def _exec_neuron(self, desc, ctx):
        cfg = desc["config"]
        c, B = cfg["c"], cfg["B"]
        facts = {"level": "neuron", "cls": c["cls"], "B": B, "lock": c["lock"]}
        B0 = cfg.get("resized_from")
        with ctx.impl("build", facts):
            big = neuron_world.WORLD._build(c if not B0 else dict(c, B=B0))
            singles = [neuron_world.WORLD._build(dict(c, B=1)) for _ in range(B)]
        # adaptation frozen: by eval mode, or (adaptive classes, half of the runs) in training mode by an explicit adapt=False at every step
        kwfreeze = c["cls"] in ("ALIF", "GLIF2", "Izhikevich", "AdEx") and bool(cfg.get("kwfreeze"))
        for m in [big] + singles:
            m.train(kwfreeze)
        if B0 and B0 != B:
            self._resize(ctx, facts, big, B, lambda: big(torch.ones((B0,) + tuple(c["shape"])) * 3.0, **({"adapt": False} if kwfreeze else {})))
            if cfg.get("clear_after_resize", True):
                big.clear()
        shape = tuple(c["shape"])
        gap = c["thresh"] - c["rest"]
        ctx.log("config", "neuron", c["cls"], B)
        nsp = 0
        for op in desc["ops"]:
            if op["op"] == "clear":
                ctx.fault("clear_all_replicas")
                for m in [big] + singles:
                    m.clear()
                continue
            g = torch.Generator().manual_seed(op["seed"])
            x = (torch.randn((B,) + shape, generator=g) * gap * 1.5 + op["mu"] * gap) / c["R"]
            kw = {"refrac_lock": c["lock"]}
            if kwfreeze:
                kw["adapt"] = False
            with ctx.impl("forward", facts):
                ob = big(x, **kw)
                os_ = [s(x[b:b + 1].clone(), **kw) for b, s in enumerate(singles)]
            ctx.step(1, c["dt"])
            ctx.log("step", x, ob)
            nsp += int(ob.any())
            self._cmp(ctx, facts, "spikes", ob, os_)
            self._cmp(ctx, facts, "voltage", big.voltage, [s.voltage for s in singles])
            self._cmp(ctx, facts, "refrac", big.refrac, [s.refrac for s in singles])
        ctx.nontrivial = nsp > 0
        ctx.state(("neuron", c["cls"], B, c["lock"]))

    # ---- synapses
    def _exec_synapse(self, desc, ctx):
        cfg = desc["config"]
        c, B = cfg["c"], cfg["B"]
        facts = {"level": "synapse", "kind": c["kind"], "B": B, "delay_k": c["delay_k"]}
        B0 = cfg.get("resized_from")
        with ctx.impl("build", facts):
            big = synapse_world.WORLD._build(c if not B0 else dict(c, B=B0), False)
            singles = [synapse_world.WORLD._build(dict(c, B=1), False) for _ in range(B)]
        shape = tuple(c["shape"])
        if B0 and B0 != B:
            def probe():
                x0 = torch.ones((B0,) + shape, dtype=torch.bool)
                big(*([x0] + ([torch.ones((B0,) + shape)] if c["kind"] == "deltaplus" else [])))
                big.current_at(torch.zeros((B0,) + shape))
            self._resize(ctx, facts, big, B, probe)
            big.clear()       # a synapse keeps the retained samples' history across a resize: the comparison starts from a cleared state
        ctx.log("config", "synapse", c["kind"], B, c["delay_k"])
        nsp = 0
        for op in desc["ops"]:
            if op["op"] == "clear":
                ctx.fault("clear_all_replicas")
                for m in [big] + singles:
                    m.clear()
                continue
            g = torch.Generator().manual_seed(op["seed"])
            x = torch.rand((B,) + shape, generator=g) < op["p"]
            args = [x]
            if c["kind"] == "deltaplus":
                args.append(torch.randn((B,) + shape, generator=g))
            with ctx.impl("forward", facts):
                ob = big(*args)
                os_ = [s(*[a[b:b + 1].clone() for a in args]) for b, s in enumerate(singles)]
            ctx.step(1, c["dt"])
            ctx.log("step", x, ob)
            nsp += int(x.any())
            self._cmp(ctx, facts, "current", ob, os_)
            self._cmp(ctx, facts, "spike", big.spike, [s.spike for s in singles])
            if op["query"]:
                sel = torch.rand((B,) + shape, generator=g) * (c["delay"] + c["dt"])
                with ctx.impl("current_at", facts):
                    qb = big.current_at(sel)
                    qs = [s.current_at(sel[b:b + 1].clone()) for b, s in enumerate(singles)]
                self._cmp(ctx, facts, "current_at", qb, qs)
                ctx.probe("delayed_query_per_sample")
        ctx.nontrivial = nsp > 0
        ctx.state(("synapse", c["kind"], B, c["delay_k"]))

    # ---- connections
    def _exec_connection(self, desc, ctx):
        cfg = desc["config"]
        c, B = cfg["c"], cfg["B"]
        delayed = bool(c.get("delayed")) or "kmax" in c
        facts = {"level": "connection", "ckind": c["ckind"], "skind": c["skind"], "B": B, "delayed": delayed}
        W = connection_world.WORLD
        B0 = cfg.get("resized_from")
        with ctx.impl("build", facts):
            reps = [W._build(c if not B0 else dict(c, B=B0), delayed, ctx)] + [W._build(dict(c, B=1), delayed, ctx) for _ in range(B)]
            if delayed:
                for r in reps:
                    r.delay = W._delay_tensor(c, r, c["delay_k"])
        big, singles = reps[0], reps[1:]
        inshape = tuple(c["inshape"])
        if B0 and B0 != B:
            def probe():
                x0 = torch.ones((B0,) + inshape, dtype=torch.bool)
                big(*([x0] + ([torch.ones((B0,) + inshape)] if c["skind"] == "deltaplus" else [])))
                if delayed:
                    big.syncurrent
            self._resize(ctx, facts, big, B, probe)
            big.clear()
        ctx.log("config", "connection", c["ckind"], c["skind"], B, delayed)
        nsp = 0
        for op in desc["ops"]:
            if op["op"] == "clear":
                ctx.fault("clear_all_replicas")
                for m in reps:
                    m.clear()
                continue
            g = torch.Generator().manual_seed(op["seed"])
            x = torch.rand((B,) + inshape, generator=g) < op["p"]
            args = [x]
            if c["skind"] == "deltaplus":
                args.append(torch.randint(-8, 9, (B,) + inshape, generator=g).float() / 4.0)
            with ctx.impl("forward", facts):
                ob = big(*args)
                os_ = [s(*[a[b:b + 1].clone() for a in args]) for b, s in enumerate(singles)]
            ctx.step(1, c["dt"])
            ctx.log("step", x, ob)
            nsp += int(x.any())
            self._cmp(ctx, facts, "output", ob, os_, exact=False)
            self._cmp(ctx, facts, "synapse current", big.synapse.current, [s.synapse.current for s in singles])
            if delayed and op["query"]:
                self._cmp(ctx, facts, "syncurrent", big.syncurrent, [s.syncurrent for s in singles])
                self._cmp(ctx, facts, "synspike", big.synspike, [s.synspike for s in singles])
                ctx.probe("delayed_views_per_sample")
        ctx.nontrivial = nsp > 0
        ctx.state(("connection", c["ckind"], c["skind"], B, delayed))

    # ---- layers
    def _exec_layer(self, desc, ctx):
        cfg = desc["config"]
        c, B = cfg["c"], cfg["B"]
        L = layer_world.WORLD
        facts = {"level": "layer", "kind": c["kind"], "combine": c.get("combine"), "B": B}
        built = []
        with ctx.impl("build", facts):
            B0 = cfg.get("resized_from")
            for n_, bb in enumerate([B0 or B] + [1] * B):
                cc = dict(c, B=bb)
                conns, neurons = L._components(cc)
                layer = L._layer(cc, conns, neurons)
                layer.train(c.get("freeze") == "kwargs")     # adaptation frozen by eval mode, or by adapt=False kwargs in training mode
                built.append((cc, conns, neurons, layer))
        ctx.log("config", "layer", c["kind"], c.get("combine"), B)
        nsp = 0

        nkw = {"adapt": False} if c.get("freeze") == "kwargs" else None

        def run(item, xs):
            cc, conns, neurons, layer = item
            if c["kind"] == "serial":
                return [layer(xs[0], neuron_kwargs=nkw)]
            if c["kind"] == "biclique":
                r = layer({f"c{i}": (x,) for i, x in enumerate(xs)}, neuron_kwargs=(None if nkw is None else {f"n{j}": nkw for j in range(len(neurons))}))
                return [r[f"n{j}"] for j in range(len(neurons))]
            return list(layer(xs[0], feedfwd_neuron_kwargs=nkw, feedback_neuron_kwargs=nkw))

        if B0 and B0 != B:
            def probe():
                nin0 = len(c["conns"]) if c["kind"] == "biclique" else 1
                run(built[0], [torch.ones((B0, c["conns"][i]["in"]), dtype=torch.bool) for i in range(nin0)])
            self._resize(ctx, facts, list(built[0][1]) + list(built[0][2]), B, probe)
            built[0][3].clear()
        for op in desc["ops"]:
            if op["op"] == "clear":
                ctx.fault("clear_all_replicas")
                with ctx.impl("layer.clear", facts):
                    for item in built:
                        item[3].clear()
                continue
            g = torch.Generator().manual_seed(op["seed"])
            nin = len(c["conns"]) if c["kind"] == "biclique" else 1
            xs = [torch.rand((B, c["conns"][i]["in"]), generator=g) < op["p"] for i in range(nin)]
            with ctx.impl("layer forward", facts):
                ob = run(built[0], xs)
                os_ = [run(built[1 + b], [x[b:b + 1].clone() for x in xs]) for b in range(B)]
            ctx.step(1, c["dt"])
            ctx.log("step", xs, ob)
            nsp += sum(int(o.any()) for o in ob)
            for j in range(len(ob)):
                self._cmp(ctx, dict(facts, group=j), f"layer output {j}", ob[j], [o[j] for o in os_])
            for j in range(len(built[0][2])):
                self._cmp(ctx, dict(facts, group=j), f"neuron {j} voltage", built[0][2][j].voltage, [built[1 + b][2][j].voltage for b in range(B)])
                if c.get("adaptive"):
                    # adaptation is frozen in every replica: the (batch-reduced) adaptation state may not drift apart
                    ab = built[0][2][j].threshold_adaptation
                    for b in range(B):
                        if not torch.equal(ab, built[1 + b][2][j].threshold_adaptation):
                            ctx.fail("sample_interaction", dict(facts, what="frozen adaptation", group=j, sample=b),
                                     f"neuron group {j}: adaptation of the batched replica {ab.flatten()[:4].tolist()} differs from sample {b} run alone although adaptation is frozen")
        ctx.nontrivial = nsp > 0
        ctx.state(("layer", c["kind"], c.get("combine"), B))

    # ---- trainers: batched sum-reduced step == sum of per-sample steps
    def _exec_trainer(self, desc, ctx):
        cfg = desc["config"]
        c, B = cfg["c"], cfg["B"]
        T = trainer_world.WORLD
        facts = {"level": "trainer", "trainer": c["trainer"], "ckind": c["ckind"], "B": B, "dmode": c["dmode"]}
        reps = []
        with ctx.impl("build", facts):
            for bb in [B] + [1] * B:
                cc = dict(c, B=bb)
                geom = trainer_world._Geom(cc)
                layer, conn, nrn = T._build_layer(cc, geom)
                tr = T._build_trainer(cc)
                T._register(tr, layer.cell, cc)
                layer.train()
                tr.train()
                reps.append((cc, geom, layer, conn, nrn, tr))
        geom = reps[0][1]
        target = "delay" if c["trainer"] in trainer_world.DELAY_TARGET else "weight"
        three = c["trainer"] in trainer_world.THREE_FACTOR
        ctx.log("config", "trainer", c["trainer"], c["ckind"], B)
        nz = 0
        for op in desc["ops"]:
            if op["op"] == "clear":
                ctx.fault("clear_all_replicas")
                with ctx.impl("trainer.clear", facts):
                    for cc, g_, layer, conn, nrn, tr in reps:
                        tr.clear()
                        conn.clear()
                        nrn.clear()
                continue
            g = torch.Generator().manual_seed(op["seed"])
            x = torch.rand((B,) + geom.inshape, generator=g) < op["p"]
            y = torch.rand((B,) + geom.outshape, generator=g) < op["p"]
            deltas = []
            with ctx.impl("training step", facts):
                for r, (cc, g_, layer, conn, nrn, tr) in enumerate(reps):
                    xb, yb = (x, y) if r == 0 else (x[r - 1:r], y[r - 1:r])
                    nrn.next = yb.clone()
                    layer(xb.clone())
                    p0 = getattr(conn, target).detach().clone()
                    if three:
                        tr(float(op["signal"]))
                    else:
                        tr()
                    layer.update()
                    deltas.append(getattr(conn, target).detach().double() - p0.double())
            ctx.step(1, c["dt"])
            ctx.log("step", x, y, deltas[0])
            total = sum(deltas[1:])
            ctx.judged += 1
            d = (deltas[0] - total).abs()
            # every delta is a difference of float32 parameters: allow for their rounding (one ulp of the parameter per replica)
            wmag = max(float(getattr(r[3], target).detach().abs().max()) for r in reps)
            if bool((d > 2e-5 + 2e-4 * total.abs() + 2.5e-7 * wmag * (B + 1)).any()):
                ctx.fail("batched_update_not_sum", facts, f"batched (sum-reduced) update {deltas[0].flatten()[:6].tolist()} != sum of per-sample updates {total.flatten()[:6].tolist()}")
            nz += int(bool((deltas[0] != 0).any()))
            # keep the single-sample replicas on the batched replica's parameters for the next step
            newp = getattr(reps[0][3], target).detach().clone()
            if target == "delay":
                newp = newp.clamp(0, c["kmax"] * c["dt"])
            for cc, g_, layer, conn, nrn, tr in reps:
                setattr(conn, target, newp.clone())
        ctx.nontrivial = nz > 0
        ctx.state(("trainer", c["trainer"], c["ckind"], B, c["dmode"]))


WORLD = BatchWorld()
