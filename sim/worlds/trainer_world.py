"""trainer_world (C08, C09, C18): a Serial layer + one trainer under seeded pre/post spike histories.

The post-synaptic population is either a real LIF or a scripted stub neuron (so that every pre x post history is
reachable).  After every `trainer(); layer.update()` the weight (or delay) change of that step is compared with a
float64 closed form over the recorded spike history; before the update the accumulators are inspected
(C09: non-negative parts, net == signed rule, routing observed by spy half-bounding callables).
C18 additionally runs cross-implementation replicas (kernel vs dedicated rule, adjusted vs unadjusted at zero delay).
"""
from __future__ import annotations

import math

import numpy as np
import torch
import torch.nn.functional as F

from ..kernel import World, stream
from ..models.synapse import synapse_ctor

DTS = [1.0, 0.5, 0.25, 2.0, 0.1, 1.3]
C08_TRAINERS = ["STDP", "STDP", "TripletSTDP", "MSTDP", "MSTDPET"]
C18_TRAINERS = ["DelayAdjustedSTDP", "DelayAdjustedSTDPD", "DelayAdjustedMSTDP", "DelayAdjustedMSTDPD",
                "KernelSTDP", "DelayAdjustedKernelSTDP", "DelayAdjustedKernelSTDPD", "cross_kernel_vs_dedicated", "cross_zero_delay"]
C09_TRAINERS = C08_TRAINERS + C18_TRAINERS[:7] + ["LinearHomeostasis", "LinearHomeostasis"]
THREE_FACTOR = {"MSTDP", "MSTDPET", "DelayAdjustedMSTDP", "DelayAdjustedMSTDPD"}
DELAY_TARGET = {"DelayAdjustedSTDPD", "DelayAdjustedMSTDPD", "DelayAdjustedKernelSTDPD"}
NEEDS_DELAY = {"DelayAdjustedSTDP", "DelayAdjustedSTDPD", "DelayAdjustedMSTDP", "DelayAdjustedMSTDPD", "DelayAdjustedKernelSTDP", "DelayAdjustedKernelSTDPD"}


def _f64(t):
    return t.detach().to(torch.float64).cpu().numpy()


def _script_neuron(shape, dt, B):
    from inferno.neural import InfernoNeuron

    class ScriptNeuron(InfernoNeuron):
        """stub: emits the spike tensor the harness scripted for this step"""

        def __init__(self):
            InfernoNeuron.__init__(self, shape, B)
            self.step_time = dt
            self.register_buffer("spike_", torch.zeros(self.batchedshape, dtype=torch.bool))
            self.next = None

        @property
        def dt(self):
            return self.step_time

        @dt.setter
        def dt(self, value):
            self.step_time = float(value)

        @property
        def voltage(self):
            return torch.zeros(self.batchedshape)

        @voltage.setter
        def voltage(self, value):
            pass

        @property
        def refrac(self):
            return torch.zeros(self.batchedshape)

        @refrac.setter
        def refrac(self, value):
            pass

        @property
        def spike(self):
            return self.spike_

        def clear(self, **kwargs):
            self.spike_ = torch.zeros(self.batchedshape, dtype=torch.bool)

        def forward(self, inputs, **kwargs):
            self.spike_ = self.next.clone()
            return self.spike_

    return ScriptNeuron()


class _Geom:
    """connection geometry in synaptic layout: pre (B, Ni, R), post (B, No, R), pair tensor (No, Ni)"""

    def __init__(self, cfg):
        self.cfg = cfg
        ck = cfg["ckind"]
        self.ck = ck
        if ck == "conv":
            k = cfg["kernel"]
            self.k = (k, k)
            self.Ni = cfg["C"] * k * k
            self.No = cfg["F"]
            self.oh = cfg["H"] - k + 1
            self.ow = cfg["W"] - k + 1
            self.R = self.oh * self.ow
            self.inshape = (cfg["C"], cfg["H"], cfg["W"])
            self.outshape = (cfg["F"], self.oh, self.ow)
            self.wshape = (cfg["F"], cfg["C"], k, k)
        else:
            self.R = 1
            self.inshape = tuple(cfg["inshape"])
            self.outshape = tuple(cfg["outshape"])
            self.Ni = int(np.prod(self.inshape))
            self.No = int(np.prod(self.outshape))
            self.wshape = (self.No,) if ck == "direct" else (self.No, self.Ni)

    def pre(self, x):
        B = x.shape[0]
        if self.ck == "conv":
            return F.unfold(x.to(torch.float64), self.k).numpy()
        return x.reshape(B, -1, 1).to(torch.float64).numpy()

    def post(self, y):
        B = y.shape[0]
        if self.ck == "conv":
            return y.reshape(B, self.No, -1).to(torch.float64).numpy()
        return y.reshape(B, -1, 1).to(torch.float64).numpy()

    def to_w(self, pairs):
        """(No, Ni) -> weight layout"""
        if self.ck == "direct":
            return np.diagonal(pairs).copy()
        if self.ck == "lateral":
            return pairs * (1 - np.eye(self.No))
        return pairs.reshape(self.wshape)

    def from_w(self, w):
        """weight layout -> (No, Ni) (direct: diagonal matrix)"""
        if self.ck == "direct":
            return np.diag(w.reshape(-1))
        return w.reshape(self.No, self.Ni)


class TrainerWorld(World):
    name = "trainer_world"
    real = ["inferno.learn STDP, TripletSTDP, MSTDP, MSTDPET, KernelSTDP, DelayAdjusted{STDP,STDPD,MSTDP,MSTDPD,KernelSTDP,KernelSTDPD}, LinearHomeostasis",
            "monitors / reducers / monitor pool created by the trainers", "inferno.neural Serial layer, LinearDense/Direct/Lateral/Conv2D, synapses, LIF", "Updater / Accumulator"]
    stub = ["scripted Neuron subclass emitting a prescribed post-synaptic spike train (arbitrary-history mode; the real-LIF mode runs alongside)",
            "spy half-bounding callables installed through upperbound()/lowerbound()"]
    state_measure = "distinct (trainer, connection kind, sign mode, trace mode, delay mode, neuron mode, reward kind, exhaustive 1x1 history code)"
    rule = ("each run = one Serial layer (connection kind x synapse, real LIF or scripted neuron) + one trainer configuration (learning-rate signs, time constants, "
            "trace mode, delay mode, batch reduction, reward) + a seeded pre/post spike history with trainer.clear() events; a share of runs sweeps all binary 1x1 "
            "histories of length 4; non-trivial = at least one non-zero parameter update; distinct = distinct event-log digests")

    # ------------------------------------------------------------------ generation
    def generate(self, seed, prop, tier):
        rc, ro = stream(seed, "config"), stream(seed, "ops")
        pool = {"C08": C08_TRAINERS, "C09": C09_TRAINERS, "C18": C18_TRAINERS}[prop]
        trainer = rc.choice(pool)
        dt = rc.choice(DTS)
        ckind = rc.choice(["dense", "dense", "direct", "lateral", "conv"])
        cfg = {"trainer": trainer, "ckind": ckind, "dt": dt, "B": rc.choice([1, 1, 2, 3]), "skind": rc.choice(["delta", "deltaplus"]),
               "Q": 30.0, "wseed": rc.randrange(1 << 30), "neuron": rc.choice(["script", "script", "lif"]),
               "lr_a": rc.choice([0.5, 1.0, 0.01, 0.25]) * rc.choice([1, 1, -1]), "lr_b": rc.choice([0.5, 1.0, 0.02]) * rc.choice([1, -1, -1]),
               "lr_a3": rc.choice([0.05, 0.3, 1.0]), "lr_b3": rc.choice([0.05, 0.2, 1.0]),
               "tc_a": rc.choice([2.0, 5.0, 20.0]), "tc_b": rc.choice([3.0, 8.0, 20.0]), "tc_slow": rc.choice([30.0, 60.0]), "tc_z": rc.choice([5.0, 25.0]),
               "trace": rc.choice(["cumulative", "nearest"]), "reduce": rc.choice(["sum", "mean", "mean", "amax"]),
               "spy": rc.random() < 0.5, "tol": 0.0, "override": rc.random() < 0.25}
        if ckind == "dense":
            cfg["inshape"], cfg["outshape"] = rc.choice([[2], [3], [2, 2]]), rc.choice([[1], [2], [3]])
        elif ckind in ("direct", "lateral"):
            cfg["inshape"] = cfg["outshape"] = rc.choice([[2], [3]])
        else:
            cfg.update(H=rc.choice([2, 3, 4]), W=rc.choice([2, 3]), C=rc.choice([1, 2]), F=rc.choice([1, 2]), kernel=rc.choice([1, 2]))
            if cfg["kernel"] > min(cfg["H"], cfg["W"]):
                cfg["kernel"] = 1
        tiny = prop == "C08" and trainer in ("STDP", "MSTDP") and rc.random() < 0.2
        if tiny:
            cfg.update(ckind="dense", inshape=[1], outshape=[1], B=1, neuron="script", tiny=rc.randrange(256))
        pooled = (not tiny) and trainer in ("STDP", "MSTDP", "TripletSTDP", "MSTDPET", "KernelSTDP", "DelayAdjustedSTDP", "DelayAdjustedMSTDP", "DelayAdjustedKernelSTDP") and rc.random() < 0.2
        if pooled:
            # one trainer, two cells sharing the post-synaptic neuron group, per-cell hyper-parameter overrides
            cfg.update(ckind="dense", inshape=rc.choice([[2], [3]]), outshape=rc.choice([[1], [2]]), neuron="script", override=True, pooled=True)
            alt = {"lr_a": rc.choice([0.5, 1.0, 0.25]) * (1 if cfg["lr_a"] >= 0 else -1), "lr_b": rc.choice([0.125, 0.75, 2.0]) * (1 if cfg["lr_b"] >= 0 else -1),
                   "tc_a": rc.choice([2.0, 5.0, 20.0]), "tc_b": rc.choice([3.0, 8.0, 20.0]), "trace": rc.choice(["cumulative", "nearest"]),
                   "lr_a3": rc.choice([0.05, 0.3, 1.0]), "lr_b3": rc.choice([0.05, 0.2, 1.0]), "tc_z": rc.choice([5.0, 25.0])}
            keys = [k for k in alt if rc.random() < 0.4] or ["lr_b"]
            cfg["cell_b"] = {k: alt[k] for k in keys}
            cfg["inshape_b"] = rc.choice([[2], [3]])
            cfg["wseed_b"] = rc.randrange(1 << 30)
            # a share of the pooled runs: ONE connection feeding two neuron groups - the two cells share the connection (and its updater)
            cfg["shared_conn"] = stream(seed, "shared_conn").random() < 0.4
            if cfg["shared_conn"]:
                cfg["inshape_b"], cfg["wseed_b"] = cfg["inshape"], cfg["wseed"]
                cfg["apply_via"] = stream(seed, "apply_via").choice(["trainer.update", "layer.update"])
        geom = _Geom(cfg)
        # delays
        needs = trainer in NEEDS_DELAY or trainer.startswith("cross")
        dmode = "adjusted" if needs else rc.choice(["none", "none", "frozen", "delayed"])
        if pooled and trainer == "MSTDPET" and dmode == "delayed":
            dmode = "frozen"
        if trainer in ("MSTDPET", "LinearHomeostasis") and dmode == "delayed":
            dmode = "frozen"
        cfg["dmode"] = dmode
        if dmode != "none":
            kmax = rc.choice([1, 2, 4])
            cfg["kmax"] = kmax
            nsyn = int(np.prod(geom.wshape))
            if trainer == "cross_zero_delay":
                cfg["delay_k"] = [0.0] * nsyn
            elif needs and rc.random() < 0.3:
                cfg["delay_k"] = [round(rc.uniform(0, kmax), 2) for _ in range(nsyn)]     # learned (off-grid) delays are legal for the adjusted rules
            else:
                cfg["delay_k"] = [float(rc.randint(0, kmax)) for _ in range(nsyn)]
            if pooled:
                nsyn_b = int(np.prod(cfg["inshape_b"])) * int(np.prod(cfg["outshape"]))
                cfg["cell_b"]["delay_k"] = [float(rc.randint(0, kmax)) for _ in range(nsyn_b)]
                if cfg.get("shared_conn"):
                    cfg["cell_b"]["delay_k"] = list(cfg["delay_k"])      # the same connection, the same learned delays
        if trainer in THREE_FACTOR:
            cfg["reward"] = rc.choice(["scalar", "scalar", "persample"])
            if cfg["reward"] == "persample" and rc.random() < 0.5:
                cfg["reduce"] = "sum"
        if trainer == "LinearHomeostasis":
            cfg["param"] = rc.choice(["weight", "bias", "delay"]) if dmode != "none" else rc.choice(["weight", "bias"])
            cfg["plasticity"] = rc.choice([0.1, 0.5, -0.2])
            cfg["target"] = rc.choice([0.05, 0.3, 0.6, 0.9])
        # kernel hyper-parameters may be given as tensors (registered as buffers on the per-cell state)
        kt = stream(seed, "ktensor")
        cfg["ktensor"] = kt.choice(["none", "none", "both", "post", "pre", "mixed"]) if "Kernel" in trainer or trainer.startswith("cross") else "none"
        T = 4 if tiny else ro.randint(4, 40 if tier == "thorough" else 24)
        ops = []
        nin = cfg["B"] * int(np.prod(geom.inshape))
        nout = cfg["B"] * int(np.prod(geom.outshape))
        pin, pout = ro.choice([0.2, 0.4, 0.7]), ro.choice([0.2, 0.4, 0.7])
        for t in range(T):
            if not tiny and ro.random() < 0.06:
                ops.append({"op": "clear", "keepshape": ro.random() < 0.5})
            # the connection's learned delays change between steps (another rule may be learning them): adjusted-delay weight rules read the current ones
            ad = stream(seed, f"assign_delay{t}")
            if (cfg["dmode"] == "adjusted" and not pooled and not tiny and not trainer.startswith("cross") and trainer not in DELAY_TARGET and ad.random() < 0.08):
                ops.append({"op": "assign_delay", "delay_k": [float(ad.randint(0, cfg["kmax"])) for _ in range(int(np.prod(geom.wshape)))]})
            if tiny:
                x = [(cfg["tiny"] >> t) & 1]
                y = [(cfg["tiny"] >> (4 + t)) & 1]
            else:
                x = [1 if ro.random() < pin else 0 for _ in range(nin)]
                y = [1 if ro.random() < pout else 0 for _ in range(nout)]
            op = {"op": "step", "x": x, "y": y}
            if pooled:
                op["x_b"] = [1 if ro.random() < pin else 0 for _ in range(cfg["B"] * int(np.prod(cfg["inshape_b"])))]
                if cfg.get("shared_conn"):
                    yb = stream(seed, f"y_b{t}")
                    op["y_b"] = [1 if yb.random() < pout else 0 for _ in range(nout)]
                if trainer in THREE_FACTOR and ro.random() < 0.3:
                    op["only"] = ro.choice(["a", "b"])      # the three-factor trainers can be asked to train a subset of their cells
            if trainer in THREE_FACTOR:
                if cfg["reward"] == "scalar":
                    op["signal"] = ro.choice([1.0, -1.0, 0.5, -2.0, 0.0])
                else:
                    op["signal"] = [ro.choice([1.0, -1.0, 0.5, -0.25, 0.0]) for _ in range(cfg["B"])]
                op["scale"] = ro.choice([1.0, 1.0, 0.5, 2.0])
            ops.append(op)
        return {"config": cfg, "ops": ops}

    # ------------------------------------------------------------------ construction
    def _build_layer(self, cfg, geom):
        from inferno import neural as nn_

        dt, B = cfg["dt"], cfg["B"]
        ws = cfg["wseed"]
        g = torch.Generator().manual_seed(ws)

        def winit(x):
            return torch.randint(1, 9, tuple(x.shape), generator=torch.Generator().manual_seed(ws)).float() / 8.0

        delay = cfg["kmax"] * dt if cfg["dmode"] != "none" else None
        kw = dict(synapse=synapse_ctor(cfg["skind"], {"Q": cfg["Q"], "tol": cfg["tol"]}), bias=True, delay=delay, batch_size=B, weight_init=winit,
                  bias_init=lambda x: torch.zeros_like(x))
        ck = cfg["ckind"]
        if ck == "dense":
            conn = nn_.LinearDense(geom.inshape, geom.outshape, dt, **kw)
        elif ck == "direct":
            conn = nn_.LinearDirect(geom.inshape, dt, **kw)
        elif ck == "lateral":
            conn = nn_.LinearLateral(geom.inshape, dt, **kw)
        else:
            conn = nn_.Conv2D(cfg["H"], cfg["W"], cfg["C"], cfg["F"], dt, cfg["kernel"], **kw)
        if delay is not None:
            conn.delay = (torch.tensor(cfg["delay_k"], dtype=torch.float32).reshape(tuple(conn.delay.shape)) * dt)
        if cfg["neuron"] == "script":
            nrn = _script_neuron(geom.outshape, dt, B)
        else:
            nrn = nn_.LIF(geom.outshape, dt, rest_v=-60.0, reset_v=-65.0, thresh_v=-50.0, refrac_t=dt * 2, time_constant=10.0, batch_size=B)
        layer = nn_.Serial(conn, nrn)
        conn.updater = conn.defaultupdater()
        return layer, conn, nrn

    def _trainer_spec(self, cfg, name=None):
        """(class, positional args, keyword hyper-parameters) of the trainer under test"""
        import inferno.functional as IF
        from inferno import learn

        name = name or cfg["trainer"]
        red = {"sum": torch.sum, "mean": torch.mean, "amax": torch.amax}[cfg["reduce"]]
        a, b = cfg["lr_a"], cfg["lr_b"]
        delayed = cfg["dmode"] == "delayed"
        if name == "STDP":
            return learn.STDP, (), dict(lr_post=a, lr_pre=b, tc_post=cfg["tc_b"], tc_pre=cfg["tc_a"], delayed=delayed, interp_tolerance=cfg["tol"], trace_mode=cfg["trace"], batch_reduction=red)
        if name == "TripletSTDP":
            return learn.TripletSTDP, (), dict(lr_post_pair=a, lr_post_triplet=cfg["lr_a3"], lr_pre_pair=b, lr_pre_triplet=cfg["lr_b3"], tc_post_fast=cfg["tc_b"], tc_post_slow=cfg["tc_slow"] + cfg["tc_b"],
                                              tc_pre_fast=cfg["tc_a"], tc_pre_slow=cfg["tc_slow"] + cfg["tc_a"], delayed=delayed, interp_tolerance=cfg["tol"], trace_mode=cfg["trace"], batch_reduction=red)
        if name == "MSTDP":
            return learn.MSTDP, (), dict(lr_post=a, lr_pre=b, tc_post=cfg["tc_b"], tc_pre=cfg["tc_a"], delayed=delayed, interp_tolerance=cfg["tol"], trace_mode=cfg["trace"], batch_reduction=red)
        if name == "MSTDPET":
            return learn.MSTDPET, (), dict(lr_post=a, lr_pre=b, tc_post=cfg["tc_b"], tc_pre=cfg["tc_a"], tc_eligibility=cfg["tc_z"], interp_tolerance=cfg["tol"], trace_mode=cfg["trace"], batch_reduction=red)
        if name == "DelayAdjustedSTDP":
            return learn.DelayAdjustedSTDP, (), dict(lr_pos=a, lr_neg=b, tc_pos=cfg["tc_a"], tc_neg=cfg["tc_b"], batch_reduction=red)
        if name == "DelayAdjustedSTDPD":
            return learn.DelayAdjustedSTDPD, (), dict(lr_neg=a * 0.2, lr_pos=b * 0.2, tc_neg=cfg["tc_a"], tc_pos=cfg["tc_b"], batch_reduction=red)
        if name == "DelayAdjustedMSTDP":
            return learn.DelayAdjustedMSTDP, (), dict(lr_pos=a, lr_neg=b, tc_pos=cfg["tc_a"], tc_neg=cfg["tc_b"], batch_reduction=red)
        if name == "DelayAdjustedMSTDPD":
            return learn.DelayAdjustedMSTDPD, (), dict(lr_neg=a * 0.2, lr_pos=b * 0.2, tc_neg=cfg["tc_a"], tc_pos=cfg["tc_b"], batch_reduction=red)
        kpost = dict(learning_rate=a, time_constant=cfg["tc_a"])
        kpre = dict(learning_rate=b, time_constant=cfg["tc_b"])
        kern = (IF.exp_stdp_post_kernel, IF.exp_stdp_pre_kernel)
        kt = cfg.get("ktensor", "none")

        def tens(d, keys):
            return {k: (torch.tensor(float(v)) if k in keys else v) for k, v in d.items()}
        if name == "DelayAdjustedKernelSTDPD":
            kpost = dict(learning_rate=a * 0.2, time_constant=cfg["tc_a"])
            kpre = dict(learning_rate=b * 0.2, time_constant=cfg["tc_b"])
        if kt in ("both", "post"):
            kpost = tens(kpost, ("learning_rate", "time_constant"))
        if kt in ("both", "pre"):
            kpre = tens(kpre, ("learning_rate", "time_constant"))
        if kt == "mixed":
            kpost, kpre = tens(kpost, ("time_constant",)), tens(kpre, ("learning_rate",))
        if name == "KernelSTDP":
            return learn.KernelSTDP, kern, dict(kernel_post_kwargs=kpost, kernel_pre_kwargs=kpre, delayed=delayed, interp_tolerance=cfg["tol"], batch_reduction=red)
        if name == "DelayAdjustedKernelSTDP":
            return learn.DelayAdjustedKernelSTDP, kern, dict(kernel_post_kwargs=kpost, kernel_pre_kwargs=kpre, batch_reduction=red)
        if name == "DelayAdjustedKernelSTDPD":
            return learn.DelayAdjustedKernelSTDPD, kern, dict(kernel_post_kwargs=kpost, kernel_pre_kwargs=kpre, batch_reduction=red)
        if name == "LinearHomeostasis":
            return learn.LinearHomeostasis, (), dict(plasticity=cfg["plasticity"], target=cfg["target"], param=cfg["param"], batch_reduction=red)
        raise ValueError(name)

    @staticmethod
    def _decoy(kw):
        """different trainer-level defaults (other signs, time constants, trace mode, reduction): a cell registered with
        per-cell overrides must be governed by the overrides alone"""
        out = {}
        for k, v in kw.items():
            if k.startswith("lr_") or k == "plasticity":
                out[k] = -1.5 * v if v else 0.1
            elif k.startswith("tc_"):
                out[k] = 1.7 * v
            elif k == "target":
                out[k] = min(0.95, 1.9 * v)
            elif k == "trace_mode":
                out[k] = "nearest" if v == "cumulative" else "cumulative"
            elif k == "batch_reduction":
                out[k] = torch.mean if v is torch.sum else torch.sum
            elif k in ("kernel_post_kwargs", "kernel_pre_kwargs"):
                out[k] = dict(learning_rate=-1.5 * v["learning_rate"], time_constant=1.7 * v["time_constant"])
            elif k == "delayed":
                out[k] = False
            else:
                out[k] = v
        return out

    def _build_trainer(self, cfg, name=None):
        """trainer constructed with the hyper-parameters under test (or, in override mode, with decoy defaults)"""
        cls, args, kw = self._trainer_spec(cfg, name)
        if cfg.get("override"):
            return cls(*args, **self._decoy(kw))
        return cls(*args, **kw)

    def _register(self, trainer, cell, cfg, name=None):
        """register the cell; in override mode the real hyper-parameters arrive as per-cell overrides"""
        if cfg.get("override"):
            _, _, kw = self._trainer_spec(cfg, name)
            return trainer.register_cell("c", cell, **kw)
        return trainer.register_cell("c", cell)

    # ------------------------------------------------------------------ execution
    def execute(self, desc, ctx):
        cfg = desc["config"]
        if cfg["trainer"].startswith("cross"):
            return self._exec_cross(desc, ctx)
        if cfg.get("pooled") and cfg.get("shared_conn"):
            return self._exec_shared(desc, ctx)
        if cfg.get("pooled"):
            return self._exec_pooled(desc, ctx)
        return _Run(self, desc, ctx).run()

    def _exec_pooled(self, desc, ctx):
        """one trainer, two cells of a Biclique sharing the post-synaptic population, per-cell hyper-parameters"""
        from inferno import neural as nn_

        cfg_a = dict(desc["config"])
        cfg_b = dict(cfg_a, **cfg_a["cell_b"])
        cfg_b["inshape"] = cfg_a["inshape_b"]
        cfg_b["wseed"] = cfg_a["wseed_b"]
        runs = [_Run(self, {"config": c, "ops": desc["ops"]}, ctx) for c in (cfg_a, cfg_b)]
        facts = dict(runs[0].facts, pooled=True, differing=",".join(sorted(cfg_a["cell_b"])))
        B, dt = cfg_a["B"], cfg_a["dt"]
        with ctx.impl("build", facts) as reg:
            conns = []
            for r in runs:
                _layer, conn, _n = self._build_layer(r.cfg, r.geom)
                conns.append(conn)
            nrn = _script_neuron(runs[0].geom.outshape, dt, B)
            layer = nn_.Biclique([("c0", conns[0]), ("c1", conns[1])], [("n0", nrn)], "sum")
            trainer = self._build_trainer(cfg_a)        # decoy defaults: every cell is governed by its overrides
            for name, r, cn in (("a", runs[0], "c0"), ("b", runs[1], "c1")):
                _, _, kw = self._trainer_spec(r.cfg)
                trainer.register_cell(name, layer.get_cell(cn, "n0"), **kw)
            layer.train()
            trainer.train()
        if reg.waived:
            return
        for r, conn in zip(runs, conns):
            r.conn, r.nrn = conn, nrn
            r.reset_model()
        ctx.log("config", "pooled", cfg_a["trainer"], cfg_a["cell_b"])
        three = cfg_a["trainer"] in THREE_FACTOR
        nz = 0
        for op in desc["ops"]:
            if op["op"] == "clear":
                ctx.fault("trainer_clear")
                with ctx.impl("trainer.clear", facts):
                    trainer.clear(**({"keepshape": True} if op.get("keepshape") else {}))     # keyword arguments are passed on to the monitors' reducers
                    for c in conns:
                        c.clear()
                    nrn.clear()
                for r in runs:
                    r.reset_model()
                continue
            xa = torch.tensor(op["x"]).reshape((B,) + runs[0].geom.inshape).bool()
            xb = torch.tensor(op["x_b"]).reshape((B,) + runs[1].geom.inshape).bool()
            nrn.next = torch.tensor(op["y"]).reshape((B,) + runs[0].geom.outshape).bool()
            with ctx.impl("layer step", facts):
                out = layer({"c0": (xa,), "c1": (xb,)})["n0"]
            ctx.step(1, dt)
            exps = []
            for r, x in zip(runs, (xa, xb)):
                pre, post = r.geom.pre(x), r.geom.post(out)
                r.pre_hist.append(pre)
                tnow = r.t * dt
                r.last_pre = np.where(pre > 0, tnow, r.last_pre)
                r.last_post = np.where(post > 0, tnow, r.last_post)
                try:
                    exps.append(r.expected(pre, post, op))
                except _OffGrid:
                    exps.append(None)       # knife-edge t_delta: this cell is not judged at this step
                    ctx.undecided += 1
                r.t += 1
            p0 = [_f64(c.weight) for c in conns]
            with ctx.impl("trainer()", facts):
                if three:
                    sig = op["signal"]
                    kw3 = {"cells": [op["only"]]} if op.get("only") else {}
                    trainer(torch.tensor(sig, dtype=torch.float32) if isinstance(sig, list) else float(sig), scale=op.get("scale", 1.0), **kw3)
                else:
                    trainer()
                layer.update()
            ctx.log("step", xa, xb, out, conns[0].weight, conns[1].weight)
            for i, (conn, ex) in enumerate(zip(conns, exps)):
                if ex is None:
                    continue
                target, epos, eneg = ex
                delta = _f64(conn.weight) - p0[i]
                want = epos - eneg
                if op.get("only") and op["only"] != "ab"[i]:
                    want = np.zeros_like(want)       # this cell was not selected for training at this step
                    ctx.probe("selective_cells_argument")
                tol = 3e-5 + 3e-4 * (np.abs(epos) + np.abs(eneg)) + 2e-6 * np.abs(p0[i])
                ctx.judged += 1
                if np.any(np.abs(delta - want) > tol):
                    j = tuple(np.argwhere(np.abs(delta - want) > tol)[0])
                    ctx.fail("pair_sum", dict(facts, cell="ab"[i]), f"pooled trainer, cell {'ab'[i]}: weight{j} changed by {delta[j]} but its own hyper-parameters and history give {want[j]}")
                nz += int(np.any(delta != 0))
        ctx.nontrivial = nz > 0
        ctx.probe("pooled_two_cells_shared_population")
        ctx.state(("pooled", cfg_a["trainer"], tuple(sorted(cfg_a["cell_b"])), runs[0].mode))

    def _exec_shared(self, desc, ctx):
        """one trainer, two cells of a Biclique sharing the CONNECTION (one connection feeding two neuron groups): both cells contribute to the
        same accumulators; the applied change is the sum of what each cell's own hyper-parameters and history give, applied exactly once"""
        from inferno import neural as nn_

        cfg_a = dict(desc["config"])
        cfg_b = dict(cfg_a, **cfg_a["cell_b"])
        runs = [_Run(self, {"config": c, "ops": desc["ops"]}, ctx) for c in (cfg_a, cfg_b)]
        facts = dict(runs[0].facts, pooled=True, shared_conn=True, apply_via=cfg_a.get("apply_via"), differing=",".join(sorted(cfg_a["cell_b"])))
        B, dt = cfg_a["B"], cfg_a["dt"]
        with ctx.impl("build", facts) as reg:
            _layer, conn, _n = self._build_layer(cfg_a, runs[0].geom)
            nrns = [_script_neuron(runs[0].geom.outshape, dt, B) for _ in range(2)]
            layer = nn_.Biclique([("c0", conn)], [("n0", nrns[0]), ("n1", nrns[1])], "sum")
            trainer = self._build_trainer(cfg_a)
            for name, r, nn in (("a", runs[0], "n0"), ("b", runs[1], "n1")):
                _, _, kw = self._trainer_spec(r.cfg)
                trainer.register_cell(name, layer.get_cell("c0", nn), **kw)
            layer.train()
            trainer.train()
        if reg.waived:
            return
        for r, n in zip(runs, nrns):
            r.conn, r.nrn = conn, n
            r.reset_model()
        ctx.log("config", "shared_conn", cfg_a["trainer"], cfg_a["cell_b"], cfg_a.get("apply_via"))
        three = cfg_a["trainer"] in THREE_FACTOR
        nz = 0
        for op in desc["ops"]:
            if op["op"] == "clear":
                ctx.fault("trainer_clear")
                with ctx.impl("trainer.clear", facts):
                    trainer.clear(**({"keepshape": True} if op.get("keepshape") else {}))
                    conn.clear()
                    for n in nrns:
                        n.clear()
                for r in runs:
                    r.reset_model()
                continue
            xa = torch.tensor(op["x"]).reshape((B,) + runs[0].geom.inshape).bool()
            nrns[0].next = torch.tensor(op["y"]).reshape((B,) + runs[0].geom.outshape).bool()
            nrns[1].next = torch.tensor(op["y_b"]).reshape((B,) + runs[0].geom.outshape).bool()
            with ctx.impl("layer step", facts):
                outs = layer({"c0": (xa,)})
            ctx.step(1, dt)
            exps = []
            for r, nn in zip(runs, ("n0", "n1")):
                pre, post = r.geom.pre(xa), r.geom.post(outs[nn])
                r.pre_hist.append(pre)
                tnow = r.t * dt
                r.last_pre = np.where(pre > 0, tnow, r.last_pre)
                r.last_post = np.where(post > 0, tnow, r.last_post)
                try:
                    exps.append(r.expected(pre, post, op))
                except _OffGrid:
                    exps.append(None)
                r.t += 1
            p0 = _f64(conn.weight)
            with ctx.impl("trainer()", facts):
                if three:
                    sig = op["signal"]
                    kw3 = {"cells": [op["only"]]} if op.get("only") else {}
                    trainer(torch.tensor(sig, dtype=torch.float32) if isinstance(sig, list) else float(sig), scale=op.get("scale", 1.0), **kw3)
                else:
                    trainer()
                # the shared updater is applied exactly once whichever object is asked to apply it
                if cfg_a.get("apply_via") == "trainer.update":
                    trainer.update()            # applies every unique updater once; clearing is the caller's business
                    conn.updater.clear()
                else:
                    layer.update()
            ctx.log("step", xa, outs["n0"], outs["n1"], conn.weight)
            if any(e is None for e in exps):
                ctx.undecided += 1      # knife-edge t_delta in one of the cells: the summed change is not judged at this step
                continue
            want = np.zeros_like(p0)
            mag = np.zeros_like(p0)
            for i, (target, epos, eneg) in enumerate(exps):
                if op.get("only") and op["only"] != "ab"[i]:
                    ctx.probe("selective_cells_argument")
                    continue
                want = want + (epos - eneg)
                mag = mag + np.abs(epos) + np.abs(eneg)
            delta = _f64(conn.weight) - p0
            tol = 3e-5 + 3e-4 * mag + 2e-6 * np.abs(p0)
            ctx.judged += 1
            if np.any(np.abs(delta - want) > tol):
                j = tuple(np.argwhere(np.abs(delta - want) > tol)[0])
                ctx.fail("pair_sum", dict(facts, cell="a+b"), f"two cells sharing one connection: weight{j} changed by {delta[j]} but the two cells' hyper-parameters and histories give {want[j]} in total")
            nz += int(np.any(delta != 0))
        ctx.nontrivial = nz > 0
        ctx.probe("pooled_two_cells_shared_connection")
        ctx.state(("shared_conn", cfg_a["trainer"], tuple(sorted(cfg_a["cell_b"])), runs[0].mode, cfg_a.get("apply_via")))

    def _exec_cross(self, desc, ctx):
        """two implementations on twin layers must produce the same updates"""
        cfg = dict(desc["config"])
        cfg["neuron"] = "script"
        geom = _Geom(cfg)
        if cfg["trainer"] == "cross_kernel_vs_dedicated":
            names = ("DelayAdjustedKernelSTDP", "DelayAdjustedSTDP")
        else:
            names = ("DelayAdjustedKernelSTDP", "KernelSTDP")
            cfg["dmode"] = "frozen"
        facts = {"trainer": cfg["trainer"], "ckind": cfg["ckind"], "dt": cfg["dt"], "reduce": cfg["reduce"]}
        reps = []
        with ctx.impl("build", facts):
            for n in names:
                layer, conn, nrn = self._build_layer(cfg, geom)
                tr = self._build_trainer(cfg, n)
                self._register(tr, layer.cell, cfg, n)
                layer.train()
                tr.train()
                reps.append((layer, conn, nrn, tr))
        ctx.log("config", cfg["trainer"], cfg["ckind"], cfg["dt"], cfg.get("delay_k"))
        B = cfg["B"]
        nz = 0
        for op in desc["ops"]:
            if op["op"] == "clear":
                with ctx.impl("trainer.clear", facts):
                    for layer, conn, nrn, tr in reps:
                        tr.clear(**({"keepshape": True} if op.get("keepshape") else {}))
                        layer.connection.clear()
                ctx.fault("trainer_clear")
                continue
            x = torch.tensor(op["x"]).reshape((B,) + geom.inshape).bool()
            y = torch.tensor(op["y"]).reshape((B,) + geom.outshape).bool()
            deltas = []
            with ctx.impl("step", facts):
                for layer, conn, nrn, tr in reps:
                    nrn.next = y
                    layer(x)
                    w0 = _f64(conn.weight)
                    tr()
                    layer.update()
                    deltas.append(_f64(conn.weight) - w0)
            ctx.step(1, cfg["dt"])
            ctx.judged += 1
            ctx.log("step", x, y, reps[0][1].weight)
            # float32 event clocks accumulate differently in the two implementations (dt such as 0.1): same tolerance as the closed-form oracles
            if np.any(np.abs(deltas[0] - deltas[1]) > 3e-5 + 3e-4 * np.abs(deltas[1])):
                ctx.fail("cross_implementation", dict(facts, a=names[0], b=names[1]),
                         f"{names[0]} update {deltas[0].reshape(-1)[:6].tolist()} != {names[1]} update {deltas[1].reshape(-1)[:6].tolist()}")
            nz += int(np.any(deltas[0] != 0))
        ctx.nontrivial = nz > 0
        ctx.state((cfg["trainer"], cfg["ckind"], cfg["reduce"], nz > 0))
        ctx.probe(cfg["trainer"])


class _Run:
    def __init__(self, world, desc, ctx):
        self.w, self.desc, self.ctx = world, desc, ctx
        self.cfg = cfg = desc["config"]
        self.geom = _Geom(cfg)
        self.name = cfg["trainer"]
        self.dt = cfg["dt"]
        self.B = cfg["B"]
        a, b = cfg["lr_a"], cfg["lr_b"]
        self.mode = ("pot" if a >= 0 and b >= 0 else "dep" if a < 0 and b < 0 else "hebb" if a >= 0 else "anti")
        self.facts = {"override": bool(cfg.get("override")), "trainer": self.name, "ckind": cfg["ckind"], "dt": self.dt, "signs": self.mode, "trace": cfg["trace"], "dmode": cfg["dmode"],
                      "reduce": cfg["reduce"], "neuron": cfg["neuron"], "B": self.B}

    # ---- model state ---------------------------------------------------------------
    def reset_model(self):
        g = self.geom
        self.pre_hist = []                # list of (B, Ni, R)
        self.tr = {}                      # named float64 traces
        self.t = 0
        self.last_pre = np.full((self.B, g.Ni, g.R), np.nan)
        self.last_post = np.full((self.B, g.No, g.R), np.nan)
        self.last_pre_shift = np.full((self.B, g.No, g.Ni, g.R), np.nan)
        self.rate_sum = np.zeros((self.B, g.No, g.R))
        self.rate_n = 0
        self.z = {}
        self.prev_slow = {}

    def K(self):
        """per-synapse delay in steps, (No, Ni)"""
        g = self.geom
        if self.cfg["dmode"] == "none":
            return np.zeros((g.No, g.Ni))
        d = _f64(self.conn.delay) / self.dt
        return g.from_w(d)

    def shifted_pre(self, K):
        g = self.geom
        out = np.zeros((self.B, g.No, g.Ni, g.R))
        n = len(self.pre_hist)
        for o in range(g.No):
            for i in range(g.Ni):
                k = K[o, i]
                kk = int(round(k))
                if abs(k - kk) > 1e-6:
                    raise _OffGrid()
                if kk < n:
                    out[:, o, i, :] = self.pre_hist[n - 1 - kk][:, i, :]
        return out

    def trace(self, key, ev, tau, first_none=True):
        """unit-amplitude trace recurrence (cumulative / nearest)"""
        d = math.exp(-self.dt / tau)
        x = self.tr.get(key)
        if x is None:
            x = ev.copy()
        elif self.cfg["trace"] == "cumulative":
            x = x * d + ev
        else:
            x = np.where(ev > 0, 1.0, x * d)
        self.tr[key] = x
        return x

    def reduce(self, arr):
        r = self.cfg["reduce"]
        return {"sum": np.sum, "mean": np.mean, "amax": np.max}[r](arr, 0)

    # ---- expectations: returns (target param, expected pos, expected neg) in weight layout; None entries = nothing contributed
    def route(self, P_a, P_b, lr_a, lr_b):
        """P_a scaled by |lr_a| etc. already; signed routing by the signs of the rates"""
        pos = np.zeros_like(P_a)
        neg = np.zeros_like(P_a)
        if lr_a >= 0:
            pos = pos + P_a
        else:
            neg = neg + P_a
        if lr_b >= 0:
            pos = pos + P_b
        else:
            neg = neg + P_b
        return pos, neg

    def expected(self, pre, post, op):
        cfg, g, name = self.cfg, self.geom, self.name
        a, b = cfg["lr_a"], cfg["lr_b"]
        K = self.K()
        if name in ("STDP", "MSTDP", "MSTDPET", "TripletSTDP"):
            ps = self.shifted_pre(K)                                        # (B, No, Ni, R)
            xpre = self.trace("xpre", ps, cfg["tc_a"])
            xpost = self.trace("xpost", post, cfg["tc_b"])                  # (B, No, R)
            postb = post[:, :, None, :]
            if name == "TripletSTDP":
                yb = self.prev_slow.get("post", np.zeros_like(post))
                xb = self.prev_slow.get("pre", np.zeros_like(ps))
                r3a = abs(cfg["lr_a3"] / a)
                r3b = abs(cfg["lr_b3"] / b)
                ltp = ((1 + r3a * yb) * post)[:, :, None, :] * xpre
                ltd = ((1 + r3b * xb) * ps) * xpost[:, :, None, :]
                self.prev_slow["post"] = self.trace("yslow", post, cfg["tc_slow"] + cfg["tc_b"])
                self.prev_slow["pre"] = self.trace("xslow", ps, cfg["tc_slow"] + cfg["tc_a"])
            else:
                ltp = postb * xpre
                ltd = ps * xpost[:, :, None, :]
            Pa = abs(a) * ltp.sum(-1)                                       # (B, No, Ni)
            Pb = abs(b) * ltd.sum(-1)
            if name == "MSTDPET":
                dz = math.exp(-self.dt / cfg["tc_z"])
                for key, val in (("a", Pa), ("b", Pb)):
                    self.z[key] = val / cfg["tc_z"] if key not in self.z else self.z[key] * dz + val / cfg["tc_z"]
                Pa, Pb = self.z["a"], self.z["b"]
            if name in ("MSTDP", "MSTDPET"):
                return ("weight",) + self.reward(Pa, Pb, a, b, op)
            pos, neg = self.route(self.reduce(Pa), self.reduce(Pb), a, b)
            return "weight", g.to_w(pos), g.to_w(neg)
        if name in ("KernelSTDP",):
            ps = self.shifted_pre(K)
            self.last_pre_shift = np.where(ps > 0, self.t * self.dt, self.last_pre_shift)
            td = self.last_post[:, :, None, :] - self.last_pre_shift
            return ("weight",) + self.adjusted(td, a, cfg["tc_a"], b, cfg["tc_b"], op)
        if name in NEEDS_DELAY:
            td = self.last_post[:, :, None, :] - self.last_pre[:, None, :, :] - (K * self.dt)[None, :, :, None]
            if name in DELAY_TARGET:
                # d(t+dt) - d(t) = eta_- e^{-|t|/tau_-}[t>=0] + eta_+ e^{-|t|/tau_+}[t<0]; constructor order (lr_neg, lr_pos)
                la, lb = a * 0.2, b * 0.2
                return ("delay",) + self.adjusted(td, la, cfg["tc_a"], lb, cfg["tc_b"], op, delay_rule=True)
            return ("weight",) + self.adjusted(td, a, cfg["tc_a"], b, cfg["tc_b"], op)
        if name == "LinearHomeostasis":
            rate = self.rate_sum / max(self.rate_n, 1)                      # (B, No, R)
            k = ((cfg["target"] - rate) / cfg["target"]).mean(-1)           # (B, No)
            sgn = -1.0 if cfg["param"] == "delay" else 1.0
            val = self.reduce(k * cfg["plasticity"] * sgn)                  # (No,)
            return cfg["param"], val, None
        raise ValueError(name)

    def adjusted(self, td, la, ta, lb, tb, op, delay_rule=False):
        """eta_a e^{-|td|/ta} [td >= 0] + eta_b e^{-|td|/tb} [td < 0], nan -> no change; summed over receptive positions"""
        g = self.geom
        # t_delta == 0 decides the branch; with a non-representable step time the implementation's float32 event
        # clocks and the float32 delay need not cancel exactly, so a near-zero t_delta is not judged
        with np.errstate(invalid="ignore"):
            near = np.abs(td) < 1e-5
            if self.dt not in (1.0, 0.5, 0.25, 2.0):
                if np.any(near):
                    raise _OffGrid()
            elif np.any(near & (td != 0)):
                raise _OffGrid()
        with np.errstate(invalid="ignore"):
            A = np.where(np.isnan(td), 0.0, np.exp(-np.abs(td) / ta) * (td >= 0)).sum(-1) * abs(la)
            Bt = np.where(np.isnan(td), 0.0, np.exp(-np.abs(td) / tb) * (td < 0)).sum(-1) * abs(lb)
        if self.name in THREE_FACTOR:
            return self.reward(A, Bt, la, lb, op)
        pos, neg = self.route(self.reduce(A), self.reduce(Bt), la, lb)
        return g.to_w(pos), g.to_w(neg)

    def reward(self, Pa, Pb, a, b, op):
        """per-sample contributions (B, No, Ni) scaled by the (per-sample) signal"""
        g = self.geom
        sig, scale = op["signal"], op.get("scale", 1.0)
        if isinstance(sig, list):
            s = np.array(sig, dtype=np.float64)
            mag = np.abs(s * scale)[:, None, None]
            flip = (s < 0)[:, None, None]
            # documented: the routing by sign is extended to the sign of each sample's signal (a non-negative signal keeps the direction), so
            # the potentiating and the depressing component each hold one row per (sample, side) routed to it; the configured batch reduction
            # is applied to each component's rows (for a sum this is the plain per-sample sum)
            rows = {True: [], False: []}
            for P, lr in ((Pa, a), (Pb, b)):
                contrib = P * mag
                for bi in range(contrib.shape[0]):
                    rows[bool((lr >= 0) != bool(s[bi] < 0))].append(contrib[bi])
            pos = self.reduce(np.stack(rows[True], 0)) if rows[True] else np.zeros(Pa.shape[1:])
            neg = self.reduce(np.stack(rows[False], 0)) if rows[False] else np.zeros(Pa.shape[1:])
            return g.to_w(pos), g.to_w(neg)
        mag = abs(sig * scale)
        # a negative reward flips the direction: route by the sign of (rate * signal)
        pos, neg = self.route(self.reduce(Pa) * mag, self.reduce(Pb) * mag, a * sig, b * sig)
        return g.to_w(pos), g.to_w(neg)

    # ---- main loop -------------------------------------------------------------------
    def run(self):
        ctx, cfg, g = self.ctx, self.cfg, self.geom
        facts = self.facts
        with ctx.impl("build", facts) as reg:
            self.layer, self.conn, self.nrn = self.w._build_layer(cfg, g)
            self.trainer = self.w._build_trainer(cfg)
            self.w._register(self.trainer, self.layer.cell, cfg)
            self.layer.train()
            self.trainer.train()
        if reg.waived:
            return
        conn, layer, trainer = self.conn, self.layer, self.trainer
        ctx.log("config", self.name, cfg["ckind"], self.dt, self.mode, cfg["trace"], cfg["dmode"], cfg["reduce"], cfg["neuron"], cfg.get("delay_k"))
        self.reset_model()
        spies = {}
        if cfg["spy"] and ctx.prop == "C09":
            for p in conn.updater.names:
                rec = {"up": [], "lo": []}

                def up(x, u, lim, rec=rec, **k):
                    rec["up"].append(u.clone())
                    return u

                def lo(x, u, lim, rec=rec, **k):
                    rec["lo"].append(u.clone())
                    return u
                acc = getattr(conn.updater, p)
                acc.upperbound(up, 1e9)
                acc.lowerbound(lo, -1e9)
                spies[p] = rec
        nz = 0
        offgrid_skip = False
        for op in self.desc["ops"]:
            if op["op"] == "assign_delay":
                with ctx.impl("assign delay", facts):
                    conn.delay = torch.tensor(op["delay_k"], dtype=torch.float32).reshape(tuple(conn.delay.shape)) * self.dt
                ctx.fault("delays_reassigned_between_steps")
                ctx.log("assign_delay", op["delay_k"])
                continue
            if op["op"] == "clear":
                ctx.fault("trainer_clear")
                with ctx.impl("trainer.clear", facts):
                    trainer.clear(**({"keepshape": True} if op.get("keepshape") else {}))
                    conn.clear()
                    self.nrn.clear()
                self.reset_model()
                ctx.log("clear")
                continue
            x = torch.tensor(op["x"]).reshape((self.B,) + g.inshape).bool()
            if cfg["neuron"] == "script":
                self.nrn.next = torch.tensor(op["y"]).reshape((self.B,) + g.outshape).bool()
            with ctx.impl("layer step", facts):
                out = layer(x)
            ctx.step(1, self.dt)
            pre, post = g.pre(x), g.post(out)
            self.pre_hist.append(pre)
            tnow = self.t * self.dt
            self.last_pre = np.where(pre > 0, tnow, self.last_pre)
            self.last_post = np.where(post > 0, tnow, self.last_post)
            self.rate_sum = self.rate_sum + post
            self.rate_n += 1
            try:
                target, epos, eneg = self.expected(pre, post, op)
            except _OffGrid:
                offgrid_skip = True
                target, epos, eneg = None, None, None
            self.t += 1
            p0 = _f64(getattr(conn, target)) if target else None
            args = ()
            kwargs = {}
            if self.name in THREE_FACTOR:
                sig = op["signal"]
                args = (torch.tensor(sig, dtype=torch.float32) if isinstance(sig, list) else float(sig),)
                kwargs = {"scale": op.get("scale", 1.0)}
            with ctx.impl("trainer()", facts) as reg:
                trainer(*args, **kwargs)
            if reg.waived:
                return
            if target is None:
                with ctx.impl("layer.update", facts):
                    layer.update()
                continue
            acc = getattr(conn.updater, target)
            gpos, gneg = acc.pos, acc.neg
            ctx.log("step", x, out, gpos, gneg)
            # ---------------- C09: the split handed to the updater
            homeo = self.name == "LinearHomeostasis"
            c09 = ctx.prop == "C09"
            for which, part in (("pos", gpos), ("neg", gneg)):
                if part is not None and c09:
                    ctx.judged += 1
                    if bool((part < 0).any()):
                        ctx.fail("part_negative", dict(facts, which=which), f"{which} part handed to the updater has negative entries: {part.flatten()[:6].tolist()}")
            net = (0 if gpos is None else _f64(gpos)) - (0 if gneg is None else _f64(gneg))
            if homeo:
                want_net = np.broadcast_to(self._homeo_shape(epos, target), _f64(getattr(conn, target)).shape)
                dep_present = bool(gneg is not None and bool((gneg != 0).any()))
                got_net = np.broadcast_to(net, want_net.shape) if np.ndim(net) else np.full(want_net.shape, net)
                if np.any(np.abs(got_net - want_net) > 2e-5 + 2e-4 * np.abs(want_net)):
                    ctx.fail("net_update", dict(facts, depressive_part_present=dep_present, param=target),
                             f"homeostatic net update {got_net.reshape(-1)[:4].tolist()} but rate vs target demands {want_net.reshape(-1)[:4].tolist()}")
            else:
                want_net = epos - eneg
                tol = 3e-5 + 3e-4 * (np.abs(epos) + np.abs(eneg))
                got_net = np.broadcast_to(net, want_net.shape) if np.ndim(net) else np.full(want_net.shape, float(net))
                if cfg["ckind"] == "lateral":
                    # the lateral mask is applied when the update is written to the parameter
                    got_net = got_net * (1 - np.eye(g.No))
                ctx.judged += 1
                if np.any(np.abs(got_net - want_net) > tol):
                    i = tuple(np.argwhere(np.abs(got_net - want_net) > tol)[0])
                    ctx.fail("net_update", dict(facts, param=target), f"step {self.t}: pos - neg at {i} = {got_net[i]} but the signed rule gives {want_net[i]}")
                for which, part, want in ((("pos", gpos, epos), ("neg", gneg, eneg)) if c09 else ()):
                    gp = np.zeros_like(want) if part is None else np.broadcast_to(_f64(part), want.shape)
                    if cfg["ckind"] == "lateral":
                        gp = gp * (1 - np.eye(g.No))
                    if np.any(np.abs(gp - want) > tol):
                        i = tuple(np.argwhere(np.abs(gp - want) > tol)[0])
                        ctx.fail("part_routing", dict(facts, which=which, param=target), f"step {self.t}: {which} part at {i} = {gp[i]} expected {want[i]}")
            # ---------------- apply
            if spies:
                for r in spies.values():
                    r["up"].clear()
                    r["lo"].clear()
            with ctx.impl("layer.update", facts):
                layer.update()
            p1 = _f64(getattr(conn, target))
            if spies:
                rec = spies[target]
                ctx.probe("spy_bounding_observed")
                if gpos is not None and (len(rec["up"]) != 1 or not torch.equal(rec["up"][0], gpos)):
                    ctx.fail("bound_routing", dict(facts, which="pos"), "the upper-bound function did not receive exactly the potentiating part")
                if gneg is not None and (len(rec["lo"]) != 1 or not torch.equal(rec["lo"][0], gneg)):
                    ctx.fail("bound_routing", dict(facts, which="neg"), "the lower-bound function did not receive exactly the depressing part")
                if (gpos is None and rec["up"]) or (gneg is None and rec["lo"]):
                    ctx.fail("bound_routing", dict(facts, which="none"), "a bounding function was called for a part that was not contributed")
            delta = p1 - p0
            if not homeo:
                ctx.judged += 1
                tol = 3e-5 + 3e-4 * (np.abs(epos) + np.abs(eneg)) + 2e-6 * np.abs(p0)
                if np.any(np.abs(delta - want_net) > tol):
                    i = tuple(np.argwhere(np.abs(delta - want_net) > tol)[0])
                    ctx.fail("pair_sum", dict(facts, param=target, nsteps=self.t),
                             f"step {self.t}: {target}{i} changed by {delta[i]} but the closed form over the spike history gives {want_net[i]}")
            elif not ctx.known or True:
                pass
            if np.any(delta != 0):
                nz += 1
            if target == "delay":
                # keep learned delays inside the supported range (projection a user would apply)
                conn.delay = conn.delay.detach().clamp(0, cfg["kmax"] * self.dt)
                ctx.fault("delay_changed_between_steps")
        ctx.nontrivial = nz > 0
        if offgrid_skip:
            ctx.undecided += 1
        ctx.probe(self.name)
        if "tiny" in cfg:
            ctx.state(("tiny", self.name, cfg["tiny"]))
            ctx.probe("exhaustive_1x1_history")
        ctx.state((self.name, cfg["ckind"], self.mode, cfg["trace"], cfg["dmode"], cfg["neuron"], cfg.get("reward"), cfg["reduce"]))

    def _homeo_shape(self, val, target):
        """(No,) signed homeostatic change broadcast like the implementation does against the parameter"""
        g = self.geom
        if target == "bias":
            return val.reshape(-1)
        if g.ck == "direct":
            return val.reshape(-1)
        if g.ck == "conv":
            return val.reshape(-1, 1, 1, 1)
        return val.reshape(-1, 1)


class _OffGrid(Exception):
    pass


WORLD = TrainerWorld()
