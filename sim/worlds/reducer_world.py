"""reducer_world (C07): trace / fold reducers against closed forms over the recorded event history.

One reducer (plus an in-place twin) receives a seeded observation history with interleaved
clear(keepshape) faults; after every observation the latest value is compared with the closed form
computed in float64 from the list of events since the last clear, and time-indexed views / dumps
are compared with the values the reducer itself reported at those steps (the recorded history).
"""
from __future__ import annotations

import math

import numpy as np
import torch

from ..kernel import World, stream, scribble
from ..models.record import size_formula

DTS = [1.0, 0.5, 0.25, 2.0, 0.1, 1.3]
KINDS = ["nearest", "cumulative", "scaled_nearest", "scaled_cumulative", "cond_nearest", "cond_cumulative",
         "event", "passthrough", "ema", "ca", "fn_nearest", "fn_cumulative", "fn_nearest_scaled", "fn_cumulative_scaled",
         "fn_exp_nearest", "fn_exprate_cumulative"]
TOL = lambda b: 2e-5 + 2e-4 * np.abs(b)  # noqa: E731


def _crit(name):
    if name == "gt0.5":
        return lambda x: x > 0.5
    if name == "nonzero":
        return lambda x: x != 0
    if name == "bool":
        return lambda x: x.bool()
    raise ValueError(name)


class _Closed:
    """float64 closed forms from the list of observations since the last clear."""

    def __init__(self, cfg):
        self.c = cfg
        self.obs = []   # list of (np obs float64, np cond bool or None)

    def clear(self):
        self.obs = []

    def add(self, o, cond):
        self.obs.append((o, cond))

    def match(self, o, cond):
        c = self.c
        k = c["kind"]
        if k in ("nearest", "cumulative", "fn_nearest", "fn_cumulative", "fn_exp_nearest", "fn_exprate_cumulative"):
            if c["tol"] is None:
                return o == float(c["target"])
            return np.abs(o - float(c["target"])) <= c["tol"]
        if k in ("cond_nearest", "cond_cumulative"):
            return cond
        if k in ("scaled_nearest", "scaled_cumulative", "fn_nearest_scaled", "fn_cumulative_scaled", "event"):
            if c["crit"] == "gt0.5":
                return o > 0.5
            return o != 0
        raise ValueError(k)

    def value(self):
        """closed-form value after all observations so far (None if none)."""
        c = self.c
        k = c["kind"]
        if not self.obs:
            return None
        n = len(self.obs)
        dt = c["dt"]
        shape = self.obs[0][0].shape
        if k == "passthrough":
            return self.obs[-1][0].copy()
        if k == "ema":
            a = c["alpha"]
            lvl = self.obs[0][0].copy()
            for o, _ in self.obs[1:]:
                lvl = a * o + (1 - a) * lvl
            return lvl
        if k == "ca":
            return np.mean(np.stack([o for o, _ in self.obs], 0), 0)
        if k == "event":
            init = {"inf": np.inf, "nan": np.nan, "zero": 0.0}[c["initial"]]
            out = np.full(shape, init, dtype=np.float64)
            last = np.full(shape, -1, dtype=np.int64)
            for i, (o, cd) in enumerate(self.obs):
                m = self.match(o, cd)
                last = np.where(m, i, last)
            elapsed_since_first = (n - 1) * dt
            res = np.where(last >= 0, (n - 1 - last) * dt, init + elapsed_since_first)
            return res
        tau = c["tau"]
        A = c["amp"]
        s = c.get("scale", 0.0)
        scaled = k in ("scaled_nearest", "scaled_cumulative", "cond_nearest", "cond_cumulative", "fn_nearest_scaled", "fn_cumulative_scaled")
        nearest = "nearest" in k
        total = np.zeros(shape, dtype=np.float64)
        lastv = np.zeros(shape, dtype=np.float64)
        for i, (o, cd) in enumerate(self.obs):
            m = self.match(o, cd)
            amp = (s * o + A) if scaled else np.full(shape, A, dtype=np.float64)
            age = (n - 1 - i) * dt
            contrib = np.where(m, amp * math.exp(-age / tau), 0.0)
            total = total + contrib
            lastv = np.where(m, contrib, lastv * 1.0)
        if nearest:
            # most recent matching event only
            res = np.zeros(shape, dtype=np.float64)
            for i, (o, cd) in enumerate(self.obs):
                m = self.match(o, cd)
                amp = (s * o + A) if scaled else np.full(shape, A, dtype=np.float64)
                age = (n - 1 - i) * dt
                res = np.where(m, amp * math.exp(-age / tau), res)
            return res
        return total


class ReducerWorld(World):
    name = "reducer_world"
    real = ["inferno.observe trace reducers (Nearest/Cumulative/Scaled*/Conditional*)", "EventReducer", "PassthroughReducer",
            "EMAReducer", "CAReducer", "inferno.trace_* / exp_trace_* functions", "RecordTensor.select via Reducer.view"]
    stub = []
    state_measure = "distinct (kind, N, observations since clear capped at N+1, cleared-before, last op)"
    rule = ("each run = one reducer configuration (kind, dt, time constant, amplitude/scale/target/tolerance/criterion, duration) + a seeded "
            "list of observe / peek / view / dump / clear(keepshape) operations with explicit observation tensors; non-trivial = at least two "
            "observations folded; distinct = distinct event-log digests")

    def generate(self, seed, prop, tier):
        rc, ro = stream(seed, "config"), stream(seed, "ops")
        kind = rc.choice(KINDS)
        dt = rc.choice(DTS)
        dur_k = rc.choice([0, 0, 1, 2, 3, 2.5, 5])
        shape = rc.choice([[1], [3], [2, 2], [4]])
        cfg = {"kind": kind, "dt": dt, "duration": dur_k * dt, "inclusive": rc.random() < 0.3, "shape": shape,
               "tau": rc.choice([0.7, 2.0, 5.0, 20.0]), "amp": rc.choice([1.0, 0.5, -2.0, 3.0]), "scale": rc.choice([1.0, 0.3, -0.5]),
               "target": rc.choice([True, 1.0, 2.0]), "tol": rc.choice([None, None, 0.25]), "crit": rc.choice(["gt0.5", "nonzero"]),
               "initial": rc.choice(["inf", "nan", "zero"]), "alpha": rc.choice([0.0, 0.1, 0.5, 0.9, 1.0]),
               "obskind": rc.choice(["bool", "real", "real"])}
        if kind.startswith("fn_"):
            cfg["duration"] = 0.0
        if kind in ("nearest", "cumulative", "fn_nearest", "fn_cumulative", "fn_exp_nearest", "fn_exprate_cumulative") and cfg["obskind"] == "bool":
            cfg["target"] = True
            cfg["tol"] = None
        if cfg["tol"] is not None and cfg["target"] is True:
            cfg["target"] = 1.0   # a boolean target with a tolerance is not a meaningful configuration
        if kind in ("passthrough", "ema", "ca") or "scaled" in kind or "cond" in kind:
            cfg["obskind"] = "real"
        # a third of the recorded reducers reach their step time / duration through the property setters before the run starts
        via = stream(seed, "via")
        cfg["via"] = None
        if not kind.startswith("fn_") and via.random() < 0.33:
            dt0 = via.choice(DTS)
            cfg["via"] = {"dt0": dt0, "duration0": (via.choice([0, 1, 3, 2.5]) * dt0) if cfg["duration"] else 0.0, "order": via.choice(["dt_duration", "duration_dt"])}
        n = size_formula(dt, cfg["duration"], cfg["inclusive"])
        numel = int(np.prod(shape))
        ops = []
        for _ in range(ro.randint(3, 30 if tier == "thorough" else 22)):
            r = ro.random()
            if r < 0.55:
                if cfg["obskind"] == "bool":
                    o = [1.0 if ro.random() < 0.35 else 0.0 for _ in range(numel)]
                else:
                    o = [ro.choice([0.0, 1.0, 2.0, 0.75, 1.2, -1.0, float(round(ro.uniform(-2, 3), 2))]) for _ in range(numel)]
                op = {"op": "observe", "obs": o}
                if "cond" in kind:
                    op["cond"] = [ro.random() < 0.4 for _ in range(numel)]
                ops.append(op)
            elif r < 0.65:
                ops.append({"op": "peek"})
            elif r < 0.85 and not kind.startswith("fn_"):
                times = []
                D = ro.choice([0, 0, 1, 2])
                for _e in range(numel * max(D, 1)):
                    k = ro.randint(0, max(n - 1, 0))
                    c = ro.random()
                    if c < 0.5 or n == 1:
                        times.append(k * dt)
                    else:
                        k = ro.randint(0, n - 2)
                        f = ro.choice([0.5, 0.25, 0.8, round(ro.uniform(0.15, 0.85), 2)])
                        times.append((k + f) * dt)
                form = "scalar" if ro.random() < 0.3 else ("tensor" if D == 0 else "tensorD")
                vtol = ro.choice([None, 1e-6, 1e-3])
                if vtol == 1e-3 and ro.random() < 0.6:
                    # times a quarter of the caller's tolerance away from a recorded step: the recorded value, not an interpolation
                    times = [(t + 2.5e-4 if round(t / dt) < n - 1 else t - 2.5e-4) if abs(t / dt - round(t / dt)) < 1e-9 and (n > 1) else t for t in times]
                ops.append({"op": "view", "times": times[0] if form == "scalar" else times, "form": form, "D": D,
                            "tol": vtol})
            elif r < 0.92 and not kind.startswith("fn_"):
                ops.append({"op": "dump"})
            else:
                ops.append({"op": "clear", "keepshape": ro.random() < 0.5})
        return {"config": cfg, "ops": ops}

    # ------------------------------------------------------------------
    def _build(self, cfg, inplace, direct=False):
        import inferno
        from inferno import observe as ob

        k, dt = cfg["kind"], cfg["dt"]
        via = cfg.get("via")
        if via and not direct:
            red = self._build(dict(cfg, dt=via["dt0"], duration=via["duration0"]), inplace, direct=True)
            for a in via["order"].split("_"):
                if a == "dt" or cfg["duration"]:
                    setattr(red, a, cfg[a])
            red.clear()
            return red
        kw = dict(duration=cfg["duration"], inclusive=cfg["inclusive"], inplace=inplace)
        if k == "nearest":
            return ob.NearestTraceReducer(dt, cfg["tau"], cfg["amp"], cfg["target"], cfg["tol"], **kw)
        if k == "cumulative":
            return ob.CumulativeTraceReducer(dt, cfg["tau"], cfg["amp"], cfg["target"], cfg["tol"], **kw)
        if k == "scaled_nearest":
            return ob.ScaledNearestTraceReducer(dt, cfg["tau"], cfg["amp"], cfg["scale"], _crit(cfg["crit"]), **kw)
        if k == "scaled_cumulative":
            return ob.ScaledCumulativeTraceReducer(dt, cfg["tau"], cfg["amp"], cfg["scale"], _crit(cfg["crit"]), **kw)
        if k == "cond_nearest":
            return ob.ConditionalNearestTraceReducer(dt, cfg["tau"], cfg["amp"], cfg["scale"], **kw)
        if k == "cond_cumulative":
            return ob.ConditionalCumulativeTraceReducer(dt, cfg["tau"], cfg["amp"], cfg["scale"], **kw)
        if k == "event":
            return ob.EventReducer(dt, _crit(cfg["crit"]), cfg["initial"], **kw)
        if k == "passthrough":
            return ob.PassthroughReducer(dt, **kw)
        if k == "ema":
            return ob.EMAReducer(dt, cfg["alpha"], **kw)
        if k == "ca":
            return ob.CAReducer(dt, **kw)
        raise ValueError(k)

    def _fn_step(self, cfg, obs, state):
        import inferno

        k = cfg["kind"]
        decay = math.exp(-cfg["dt"] / cfg["tau"])
        if k == "fn_nearest":
            return inferno.trace_nearest(obs, state, decay=decay, amplitude=cfg["amp"], target=cfg["target"], tolerance=cfg["tol"])
        if k == "fn_cumulative":
            return inferno.trace_cumulative(obs, state, decay=decay, amplitude=cfg["amp"], target=cfg["target"], tolerance=cfg["tol"])
        if k == "fn_nearest_scaled":
            return inferno.trace_nearest_scaled(obs, state, decay=decay, amplitude=cfg["amp"], scale=cfg["scale"], matchfn=_crit(cfg["crit"]))
        if k == "fn_cumulative_scaled":
            return inferno.trace_cumulative_scaled(obs, state, decay=decay, amplitude=cfg["amp"], scale=cfg["scale"], matchfn=_crit(cfg["crit"]))
        if k == "fn_exp_nearest":
            return inferno.exp_trace_nearest(obs, state, step_time=cfg["dt"], time_constant=cfg["tau"], amplitude=cfg["amp"], target=cfg["target"], tolerance=cfg["tol"])
        if k == "fn_exprate_cumulative":
            return inferno.exprate_trace_cumulative(obs, state, step_time=cfg["dt"], rate_constant=1.0 / cfg["tau"], amplitude=cfg["amp"], target=cfg["target"], tolerance=cfg["tol"])
        raise ValueError(k)

    def execute(self, desc, ctx):
        cfg = desc["config"]
        kind, dt, shape = cfg["kind"], cfg["dt"], tuple(cfg["shape"])
        fn = kind.startswith("fn_")
        n = size_formula(dt, cfg["duration"], cfg["inclusive"])
        model = _Closed(cfg)
        facts = {"kind": kind, "dt": dt, "n": n, "obskind": cfg["obskind"], "via_setters": bool(cfg.get("via"))}
        if cfg.get("via"):
            ctx.fault("configured_through_setters")
        if not fn:
            with ctx.impl("reducer()", facts):
                red = self._build(cfg, False)
                twin = self._build(cfg, True)
        fresh = None          # freshly built reducer fed only the observations since the last clear
        state = None          # functional state
        recorded = []         # implementation's own reported values since the last clear, newest first
        cleared_before = False
        ctx.log("config", kind, dt, cfg["duration"], cfg["inclusive"], list(shape))
        fill = {"inf": np.inf, "nan": np.nan, "zero": 0.0}[cfg["initial"]] if kind == "event" else 0.0

        def near(a, b, tol=TOL):
            a, b = np.asarray(a, dtype=np.float64), np.asarray(b, dtype=np.float64)
            if a.shape != b.shape:
                return False
            both_nan = np.isnan(a) & np.isnan(b)
            both_inf = np.isinf(a) & np.isinf(b) & (np.sign(a) == np.sign(b))
            fin = np.isfinite(a) & np.isfinite(b)
            ok = both_nan | both_inf | (fin & (np.abs(np.where(fin, a, 0) - np.where(fin, b, 0)) <= tol(np.where(fin, b, 0))))
            return bool(ok.all())

        for op in desc["ops"]:
            name = op["op"]
            if name == "observe":
                if cfg["obskind"] == "bool":
                    obs = torch.tensor(op["obs"]).reshape(shape) > 0.5
                else:
                    obs = torch.tensor(op["obs"], dtype=torch.float32).reshape(shape)
                cond = torch.tensor(op["cond"]).reshape(shape) if "cond" in op else None
                o64 = obs.to(torch.float64).numpy()
                if fn:
                    with ctx.impl("trace function", facts):
                        state = self._fn_step(cfg, obs.float(), state)
                    got = state
                else:
                    args = (obs,) if cond is None else (obs, cond)
                    with ctx.impl("observe", facts):
                        given = [[a.clone() for a in args] for _ in range(3)]
                        red(*given[0])
                        twin(*given[1])
                        if fresh is not None:
                            fresh(*given[2])
                    if len(model.obs) % 2 == 0:
                        scribble(ctx, [t for g in given for t in g])
                    with ctx.impl("peek", facts):
                        got = red.peek()
                        got_t = twin.peek()
                    if got is None or got_t is None:
                        ctx.fail("peek_none_after_observe", facts, "peek returned None right after an observation")
                        continue
                    if got.shape != got_t.shape or not torch.equal(torch.nan_to_num(got, nan=-7.0), torch.nan_to_num(got_t, nan=-7.0)):
                        ctx.fail("inplace_twin_differs", facts, f"in-place and out-of-place reducers differ: {got.tolist()} vs {got_t.tolist()}")
                model.add(o64, None if cond is None else cond.numpy())
                want = model.value()
                ctx.step(1, dt)
                ctx.judged += 1
                g = got.detach().to(torch.float64).numpy()
                ctx.log("observe", obs, got)
                if len(model.obs) >= 2:
                    ctx.nontrivial = True
                if kind == "passthrough":
                    ok = g.shape == want.shape and np.array_equal(g, want)
                else:
                    ok = near(g, want)
                if not ok:
                    ctx.fail("closed_form", dict(facts, nobs=len(model.obs), cleared_before=cleared_before),
                             f"{kind} after {len(model.obs)} observations: got {g.tolist()} closed form {want.tolist()}")
                recorded.insert(0, got.detach().clone())
                ctx.state((kind, n, min(len(model.obs), n + 1), cleared_before, "observe"))
                if cleared_before:
                    ctx.probe("observation_after_clear")
            elif name == "peek":
                if fn:
                    continue
                with ctx.impl("peek", facts):
                    got = red.peek()
                    lat = red.latest
                if not model.obs:
                    if got is not None or lat is not None:
                        ctx.fail("pre_first_observation", dict(facts, cleared_before=cleared_before), "peek before the first observation (or after clear) returned a value")
                    ctx.probe("peek_before_first")
                else:
                    if got is None or not torch.equal(torch.nan_to_num(got, nan=-7.0), torch.nan_to_num(recorded[0], nan=-7.0)):
                        ctx.fail("peek_changed", facts, "peek does not return the latest folded value")
                ctx.log("peek", got)
            elif name == "dump":
                if fn:
                    continue
                with ctx.impl("dump", facts):
                    got = red.dump()
                if not model.obs:
                    if got is not None:
                        ctx.fail("pre_first_observation", dict(facts, cleared_before=cleared_before), "dump before the first observation returned a value")
                    continue
                ctx.judged += 1
                if tuple(got.shape) != (n, *shape):
                    ctx.fail("dump_shape", facts, f"dump shape {tuple(got.shape)} expected {(n, *shape)}")
                    continue
                for k in range(min(n, len(recorded))):
                    if not torch.equal(torch.nan_to_num(got[k], nan=-7.0), torch.nan_to_num(recorded[k].to(got.dtype), nan=-7.0)):
                        ctx.fail("dump_order", dict(facts, k=k), f"dump()[{k}] = {got[k].tolist()} but the value recorded {k} steps ago was {recorded[k].tolist()}")
                with ctx.impl("dump (in-place twin)", facts):
                    got_tw = twin.dump()
                if got_tw is None or got_tw.shape != got.shape or not torch.equal(torch.nan_to_num(got_tw, nan=-7.0), torch.nan_to_num(got, nan=-7.0)):
                    ctx.fail("inplace_twin_differs", dict(facts, op="dump"), "in-place and out-of-place reducers dump different records")
                if fresh is not None:
                    gf = fresh.dump()
                    if gf is None or gf.shape != got.shape or not torch.equal(torch.nan_to_num(gf, nan=-7.0), torch.nan_to_num(got, nan=-7.0)):
                        ctx.fail("cleared_differs_from_fresh", dict(facts, op="dump"),
                                 f"dump after clear {got.flatten().tolist()} differs from a freshly built reducer given the same observations {None if gf is None else gf.flatten().tolist()}")
                    ctx.probe("fresh_twin_compared")
                ctx.log("dump", got)
                ctx.probe("dump")
            elif name == "clear":
                if fn:
                    state = None
                    model.clear()
                    recorded = []
                    continue
                ctx.fault("clear_keepshape" if op["keepshape"] else "clear")
                with ctx.impl("clear", dict(facts, keepshape=op["keepshape"])):
                    red.clear(keepshape=op["keepshape"])
                    twin.clear(keepshape=op["keepshape"])
                model.clear()
                recorded = []
                cleared_before = True
                fresh = self._build(cfg, False, direct=True)
                ctx.log("clear", op["keepshape"])
                with ctx.impl("peek after clear", facts):
                    got = red.peek()
                if got is not None:
                    ctx.fail("pre_first_observation", dict(facts, cleared_before=True), "peek after clear returned a value")
            elif name == "view":
                if fn:
                    continue
                form = op["form"]
                tol = op["tol"]
                kw = {} if tol is None else {"tolerance": tol}
                teff = 1e-7 if tol is None else tol
                if form == "scalar":
                    time = float(op["times"])
                    tl = [time]
                    D = 1
                else:
                    D = max(op["D"], 1)
                    arr = np.array(op["times"], dtype=np.float64)
                    if form == "tensor":
                        arr = arr[: int(np.prod(shape))].reshape(shape)
                    else:
                        arr = arr.reshape(shape + (D,))
                    time = torch.tensor(arr, dtype=torch.float64)
                    tl = arr.reshape(-1).tolist()
                limit = dt * (n - 1)
                if any(t > limit + 1e-9 for t in tl):
                    continue  # generated for another size
                with ctx.impl("view", dict(facts, form=form)):
                    got = red.view(time, **kw)
                if not model.obs:
                    if got is not None:
                        ctx.fail("pre_first_observation", dict(facts, cleared_before=cleared_before), "view before the first observation returned a value")
                    continue
                if got is None:
                    ctx.fail("view_none", facts, "view returned None although observations exist")
                    continue
                ctx.log("view", op["times"], got)
                with ctx.impl("view (in-place twin)", dict(facts, form=form)):
                    got_tw = twin.view(time, **kw)
                if got_tw is None or got_tw.shape != got.shape or not torch.equal(torch.nan_to_num(got_tw, nan=-7.0), torch.nan_to_num(got, nan=-7.0)):
                    ctx.fail("inplace_twin_differs", dict(facts, op="view"), "in-place and out-of-place reducers answer a time-indexed view differently")
                if fresh is not None:
                    gf = fresh.view(time, **kw)
                    if gf is None or gf.shape != got.shape or not torch.equal(torch.nan_to_num(gf, nan=-7.0), torch.nan_to_num(got, nan=-7.0)):
                        ctx.fail("cleared_differs_from_fresh", dict(facts, op="view"),
                                 f"view({op['times']}) after clear {got.flatten().tolist()} differs from a freshly built reducer given the same observations {None if gf is None else gf.flatten().tolist()}")
                    ctx.probe("fresh_twin_compared")
                exp_shape = shape if form != "tensorD" else shape + (D,)
                if tuple(got.shape) != exp_shape:
                    ctx.fail("view_shape", dict(facts, form=form), f"view returned shape {tuple(got.shape)} expected {exp_shape}")
                    continue
                g = got.detach().to(torch.float64).numpy().reshape(int(np.prod(shape)), D if form == "tensorD" else 1)
                numel = int(np.prod(shape))
                for e in range(numel):
                    idx = np.unravel_index(e, shape)
                    for d in range(D if form == "tensorD" else 1):
                        t = tl[0] if form == "scalar" else tl[e * (D if form == "tensorD" else 1) + d]
                        s = t / dt
                        r = round(s)
                        on = abs(dt * r - t) <= teff
                        if not on and abs(dt * r - t) < max(4 * teff, 0.05 * dt):
                            ctx.undecided += 1
                            continue
                        ctx.judged += 1
                        if on:
                            if r >= len(recorded):
                                continue  # before the first observation since clear: nothing was recorded then
                            want = float(recorded[r].to(torch.float64)[idx])
                            gv = g[e, d]
                            if not (gv == want or (math.isnan(gv) and math.isnan(want))):
                                ctx.fail("view_on_grid", dict(facts, form=form, k=r), f"view({t}) = {gv} but the value recorded {r} steps ago was {want}")
                            ctx.probe("view_on_grid")
                        else:
                            older, newer = math.ceil(s), math.floor(s)
                            if older >= len(recorded):
                                continue
                            el = dt * (older - s)   # time elapsed since the older sample
                            vo = float(recorded[older].to(torch.float64)[idx])
                            vn = float(recorded[newer].to(torch.float64)[idx])
                            if kind in ("passthrough",):
                                want = vo
                            elif kind == "event":
                                want = vo + el
                            elif kind in ("ema", "ca"):
                                want = vo + (vn - vo) / dt * el
                            else:
                                want = vo * math.exp(-el / cfg["tau"])
                            gv = g[e, d]
                            if not near(np.array(gv), np.array(want)):
                                ctx.fail("view_off_grid", dict(facts, form=form), f"view({t}) = {gv}, expected {want} from older={vo} newer={vn} elapsed={el}")
                            ctx.probe("view_off_grid")


WORLD = ReducerWorld()
