"""neuron_world (C03): per-step refinement of the eight neuron models from the real pre-state plus
whole-history refractory invariants, under simulated time with clear() / mode-switch events."""
from __future__ import annotations

import math

import numpy as np
import torch

from ..kernel import World, stream, scribble

DTS = [1.0, 0.5, 0.25, 2.0, 0.1, 1.3]
DYADIC = {1.0, 0.5, 0.25, 2.0}
CLASSES = ["LIF", "ALIF", "GLIF1", "GLIF2", "QIF", "Izhikevich", "EIF", "AdEx"]


def _f64(t):
    return t.detach().to(torch.float64).cpu().numpy()


class NeuronWorld(World):
    name = "neuron_world"
    real = ["inferno.neural LIF, ALIF, GLIF1, GLIF2, QIF, Izhikevich, EIF, AdEx (forward, clear, spike/voltage/refrac attributes)"]
    stub = []
    state_measure = "distinct (class, refrac steps, lock, per-step (any spike, any refractory, any near-threshold) pattern hash of the first 12 steps)"
    rule = ("each run = one neuron class with hyper-parameters drawn in their validated domains + a seeded sequence of input-current steps "
            "(zero / constant / gaussian / huge / negative / adversarial near-threshold solved from the real pre-state) with clear() and train/eval events; "
            "non-trivial = at least one spike and one refractory step observed; distinct = distinct event-log digests")

    def generate(self, seed, prop, tier):
        rc, ro = stream(seed, "config"), stream(seed, "ops")
        cls = rc.choice(CLASSES)
        dt = rc.choice(DTS)
        rest = rc.choice([-65.0, -60.0, 0.0])
        gap = rc.choice([10.0, 15.0, 1.0])
        thresh = rest + gap
        reset = rc.choice([rest, rest - 5.0, rest + 0.2 * gap])
        if dt in DYADIC:
            rk = rc.choice([0, 1, 2, 2.5, 0.3, 7, 3, 2.25, 1.2, 3.75])
        else:
            rk = rc.choice([0, 1, 2, 2.5, 0.3, 4.6, 2.25, 1.2])
        cfg = {"cls": cls, "dt": dt, "rest": rest, "thresh": thresh, "reset": reset, "refrac_k": rk, "refrac_t": rk * dt,
               "tau": rc.choice([2.0, 5.0, 10.0, 20.0, 0.8]), "R": rc.choice([1.0, 0.5, 2.0]),
               "shape": rc.choice([[1], [3], [2, 2], [5]]), "B": rc.choice([1, 1, 2, 3]),
               "lock": rc.random() < 0.65, "K": rc.choice([1, 1, 2]),
               "crit": rest + 0.5 * gap, "affinity": rc.choice([0.04, 0.5]),
               "rheo": rest + 0.6 * gap, "sharp": rc.choice([1.0, 2.0]),
               "tc_adapt": rc.choice([20.0, 50.0]), "inc": rc.choice([0.5, 2.0, 0.0]),
               "radd": rc.choice([0.0, 2.0, 5.0]), "rmul": rc.choice([0.0, 0.1, 0.5]), "rc_adapt": rc.choice([0.05, 0.1]),
               "vc": rc.choice([0.2, -0.1, 0.0]), "train": rc.random() < 0.5, "tseed": rc.randrange(1 << 30)}
        # a quarter of the neurons reach their step time / batch size through the property setters before the run starts
        via = stream(seed, "via")
        cfg["via"] = {"dt0": via.choice(DTS), "B0": via.choice([1, 2, 4]), "order": via.choice(["dt_batchsz", "batchsz_dt"])} if via.random() < 0.25 else None
        ops = []
        T = ro.randint(6, 64 if tier == "thorough" else 40)
        regime = ro.choice(["mixed", "mixed", "supra", "near"])
        for _ in range(T):
            r = ro.random()
            if r < 0.05:
                ops.append({"op": "clear", "keep": ro.random() < 0.6})
                continue
            if r < 0.09:
                ops.append({"op": "mode", "train": ro.random() < 0.5})
                continue
            c = ro.random()
            adapt = ro.choice([None, None, True, False])
            if regime == "supra" and c < 0.6:
                ops.append({"op": "step", "cur": "const", "v": gap * ro.choice([1.5, 3.0, 6.0]) / cfg["R"], "adapt": adapt})
            elif (regime == "near" and c < 0.6) or c < 0.2:
                ops.append({"op": "step", "cur": "near", "delta": ro.choice([-1, 1]) * ro.choice([0.01, 0.05, 0.5]), "adapt": adapt,
                            "frac": ro.choice([1.0, 0.5])})
            elif c < 0.3:
                ops.append({"op": "step", "cur": "zero", "adapt": adapt})
            elif c < 0.5:
                ops.append({"op": "step", "cur": "const", "v": gap * ro.choice([0.3, 0.9, 1.5, 4.0]) / cfg["R"], "adapt": adapt})
            elif c < 0.8:
                ops.append({"op": "step", "cur": "gauss", "mu": gap * ro.choice([0.0, 1.0, 2.0]), "sd": gap * ro.choice([0.5, 2.0]),
                            "gseed": ro.randrange(1 << 30), "adapt": adapt})
            elif c < 0.9:
                ops.append({"op": "step", "cur": "const", "v": -gap * ro.choice([0.5, 3.0]), "adapt": adapt})
            else:
                ops.append({"op": "step", "cur": "const", "v": ro.choice([1e4, -1e4, 500.0]), "adapt": adapt})
        return {"config": cfg, "ops": ops}

    # ------------------------------------------------------------------
    def _build(self, c):
        from inferno import neural as nn_

        cls, dt, shape, B = c["cls"], c["dt"], tuple(c["shape"]), c["B"]
        K = c["K"]
        tup = lambda v: tuple([v] * K) if K > 1 else v  # noqa: E731
        if cls in ("LIF", "GLIF1"):
            return getattr(nn_, cls)(shape, dt, rest_v=c["rest"], reset_v=c["reset"], thresh_v=c["thresh"], refrac_t=c["refrac_t"],
                                     time_constant=c["tau"], resistance=c["R"], batch_size=B)
        if cls == "ALIF":
            return nn_.ALIF(shape, dt, rest_v=c["rest"], reset_v=c["reset"], thresh_eq_v=c["thresh"], refrac_t=c["refrac_t"], tc_membrane=c["tau"],
                            tc_adaptation=tup(c["tc_adapt"]), spike_increment=tup(c["inc"]), resistance=c["R"], batch_size=B)
        if cls == "GLIF2":
            return nn_.GLIF2(shape, dt, rest_v=c["rest"], reset_v_add=c["radd"], reset_v_mul=c["rmul"], thresh_eq_v=c["thresh"], refrac_t=c["refrac_t"],
                             tc_membrane=c["tau"], rc_adaptation=tup(c["rc_adapt"]), spike_increment=tup(c["inc"]), resistance=c["R"], batch_size=B)
        if cls == "QIF":
            return nn_.QIF(shape, dt, rest_v=c["rest"], crit_v=c["crit"], affinity=c["affinity"], reset_v=c["reset"], thresh_v=c["thresh"],
                           refrac_t=c["refrac_t"], time_constant=c["tau"], resistance=c["R"], batch_size=B)
        if cls == "Izhikevich":
            return nn_.Izhikevich(shape, dt, rest_v=c["rest"], crit_v=c["crit"], affinity=c["affinity"], reset_v=c["reset"], thresh_v=c["thresh"],
                                  refrac_t=c["refrac_t"], tc_membrane=c["tau"], tc_adaptation=tup(c["tc_adapt"]), voltage_coupling=tup(c["vc"]),
                                  spike_increment=tup(c["inc"]), resistance=c["R"], batch_size=B)
        if cls == "EIF":
            return nn_.EIF(shape, dt, rest_v=c["rest"], rheobase_v=c["rheo"], sharpness=c["sharp"], reset_v=c["reset"], thresh_v=c["thresh"],
                           refrac_t=c["refrac_t"], time_constant=c["tau"], resistance=c["R"], batch_size=B)
        if cls == "AdEx":
            return nn_.AdEx(shape, dt, rest_v=c["rest"], rheobase_v=c["rheo"], sharpness=c["sharp"], reset_v=c["reset"], thresh_v=c["thresh"],
                            refrac_t=c["refrac_t"], tc_membrane=c["tau"], tc_adaptation=tup(c["tc_adapt"]), voltage_coupling=tup(c["vc"]),
                            spike_increment=tup(c["inc"]), resistance=c["R"], batch_size=B)
        raise ValueError(cls)

    @staticmethod
    def _integrate(c, v, ieff):
        """documented one-step voltage update in float64 (ieff already masked / adapted)"""
        cls, dt = c["cls"], c["dt"]
        with np.errstate(all="ignore"):
            if cls in ("LIF", "ALIF", "GLIF1", "GLIF2"):
                d = math.exp(-dt / c["tau"])
                ext = c["R"] * ieff
                return c["rest"] + (v - c["rest"] - ext) * d + ext
            if cls in ("QIF", "Izhikevich"):
                dyn = c["affinity"] * (v - c["rest"]) * (v - c["crit"])
                return v + (dt / c["tau"]) * (dyn + c["R"] * ieff)
            dyn = c["sharp"] * np.exp((v - c["rheo"]) / c["sharp"])
            return v + (dt / c["tau"]) * (-(v - c["rest"]) + dyn + c["R"] * ieff)

    @staticmethod
    def _solve(c, v, target):
        """effective current that lands the integrated voltage on `target` (float64)"""
        cls, dt = c["cls"], c["dt"]
        with np.errstate(all="ignore"):
            if cls in ("LIF", "ALIF", "GLIF1", "GLIF2"):
                d = math.exp(-dt / c["tau"])
                return (target - c["rest"] - (v - c["rest"]) * d) / (c["R"] * (1 - d))
            if cls in ("QIF", "Izhikevich"):
                dyn = c["affinity"] * (v - c["rest"]) * (v - c["crit"])
            else:
                dyn = -(v - c["rest"]) + c["sharp"] * np.exp((v - c["rheo"]) / c["sharp"])
            return ((target - v) * c["tau"] / dt - dyn) / c["R"]

    def execute(self, desc, ctx):
        c = desc["config"]
        cls, dt = c["cls"], c["dt"]
        shape, B = tuple(c["shape"]), c["B"]
        bshape = (B,) + shape
        lock = c["lock"]
        facts = {"cls": cls, "dt": dt, "refrac_k": c["refrac_k"], "lock": lock, "B": B}
        via = c.get("via")
        with ctx.impl("neuron()", facts):
            if via:
                nrn = self._build(dict(c, dt=via["dt0"], B=via["B0"]))
                for a in via["order"].split("_"):
                    setattr(nrn, a, dt if a == "dt" else B)
                nrn.clear()
                ctx.fault("configured_through_setters")
            else:
                nrn = self._build(c)
        nrn.train(c["train"])
        adaptive_thr = cls in ("ALIF", "GLIF2")
        adaptive_cur = cls in ("Izhikevich", "AdEx")
        rt32 = np.float32(c["refrac_t"])
        dt32 = np.float32(dt)
        Kmin = max(1, math.ceil(c["refrac_t"] / dt - 1e-9))
        last_spike = np.full(bshape, -10 ** 9, dtype=np.int64)   # step index of last spike since clear
        locked_v = np.zeros(bshape, dtype=np.float64)
        t = 0
        pattern = []
        saw_spike = saw_refrac = False
        ctx.log("config", cls, dt, c["refrac_t"], lock, list(bshape))
        if tuple(nrn.batchedshape) != bshape:
            ctx.fail("batchedshape", facts, f"batchedshape {tuple(nrn.batchedshape)} != {bshape}")

        for op in desc["ops"]:
            if op["op"] == "clear":
                ctx.fault("clear")
                with ctx.impl("clear", facts):
                    if adaptive_thr or adaptive_cur:
                        nrn.clear(keep_adaptations=op["keep"])
                    else:
                        nrn.clear()
                v, r = _f64(nrn.voltage), _f64(nrn.refrac)
                if not np.all(v == np.float32(c["rest"])) or not np.all(r == 0):
                    ctx.fail("clear_state", facts, "clear() did not restore resting voltage / zero refractory time")
                if (adaptive_thr or adaptive_cur) and not op["keep"]:
                    a = _f64(nrn.threshold_adaptation if adaptive_thr else nrn.current_adaptation)
                    if np.any(a != 0):
                        ctx.fail("clear_state", facts, "clear(keep_adaptations=False) left adaptations")
                last_spike[:] = -10 ** 9
                ctx.log("clear", op["keep"])
                continue
            if op["op"] == "mode":
                nrn.train(op["train"])
                ctx.log("mode", op["train"])
                continue
            # ------------------------------------------------ one simulation step
            v0 = _f64(nrn.voltage)
            r0 = nrn.refrac.detach().cpu().numpy().astype(np.float32)
            if adaptive_thr:
                a0 = _f64(nrn.threshold_adaptation)
                thr = c["thresh"] + a0.sum(-1)            # shape S, broadcast over batch
                thr = np.broadcast_to(thr, bshape)
                sub = np.zeros(bshape)
            elif adaptive_cur:
                a0 = _f64(nrn.current_adaptation)
                thr = np.full(bshape, c["thresh"])
                sub = np.broadcast_to(a0.sum(-1), bshape)
            else:
                thr = np.full(bshape, c["thresh"])
                sub = np.zeros(bshape)
            _err = np.seterr(all="ignore")
            # documented decrement, floored at zero (float32 arithmetic of the state variable)
            r1 = np.maximum(r0 - dt32, np.float32(0))
            mask = r1 == 0
            # input current
            kind = op["cur"]
            if kind == "zero":
                cur = np.zeros(bshape)
            elif kind == "const":
                cur = np.full(bshape, float(op["v"]))
            elif kind == "gauss":
                g = torch.Generator().manual_seed(op["gseed"])
                cur = (torch.randn(bshape, generator=g, dtype=torch.float64) * op["sd"] + op["mu"]).numpy() / c["R"]
            else:
                target = thr + op["delta"]
                ieff = self._solve(c, v0, target)
                cur = ieff + sub
                if op.get("frac", 1.0) != 1.0:
                    # only part of the population is driven to the knife edge
                    sel = np.arange(cur.size).reshape(bshape) % 2 == 0
                    cur = np.where(sel, cur, 0.0)
                cur = np.where(np.isfinite(cur), cur, 0.0)
                cur = np.clip(cur, -1e6, 1e6)
            x = torch.tensor(cur, dtype=torch.float32).reshape(bshape)
            cur32 = x.to(torch.float64).numpy()
            kw = {"refrac_lock": lock}
            if adaptive_thr or adaptive_cur:
                kw["adapt"] = op.get("adapt")
            xin = x.clone()
            with ctx.impl("forward", facts):
                out = nrn(xin, **kw)
            if t % 2 == 0:
                scribble(ctx, [xin])
            t += 1
            ctx.step(1, dt)
            ctx.log("step", x, out)
            # ---- output contract
            if out.dtype != torch.bool or tuple(out.shape) != bshape:
                ctx.fail("output_contract", dict(facts, dtype=str(out.dtype), shape=list(out.shape)), f"forward returned {out.dtype} {tuple(out.shape)}, expected bool {bshape}")
                return
            s = out.cpu().numpy()
            v1 = _f64(nrn.voltage)
            r2 = nrn.refrac.detach().cpu().numpy().astype(np.float32)
            # ---- step oracle: refinement from the real pre-state
            ieff = (cur32 - sub) * mask
            vint = self._integrate(c, v0, ieff)
            finite = np.isfinite(vint) & (np.abs(vint) < 1e30) & (np.abs(v0) < 1e30)   # beyond float32 range nothing is judged
            scale = np.maximum(1.0, (np.abs(np.where(finite, vint, 0.0)) + np.abs(v0)) / 100.0)   # float32 cancellation scales with the operands
            margin = 1e-3 * scale + 2e-6 * np.abs(c["R"] * ieff)
            dist = np.where(finite, vint - thr, np.where(np.isnan(vint), 0.0, np.sign(vint) * np.inf))
            decided = mask & (np.abs(dist) > margin) & finite
            want_spike = mask & (dist >= 0)
            und = int((mask & ~decided).sum())
            ctx.undecided += und
            ctx.judged += int(decided.sum()) + int((~mask).sum())
            # refractory neurons never spike
            if np.any(s & ~mask):
                ctx.fail("spike_while_refractory", facts, f"step {t}: spike emitted by a neuron whose remaining refractory time {r0[s & ~mask].tolist()} - dt is still positive")
            bad = decided & (s != want_spike)
            if np.any(bad):
                i = tuple(np.argwhere(bad)[0])
                ctx.fail("spike_decision", dict(facts, expected=bool(want_spike[i])),
                         f"step {t} neuron {i}: integrated voltage {vint[i]} vs threshold {thr[i]} (pre v={v0[i]}, I={cur32[i]}) but spike={bool(s[i])}")
            if np.any(np.abs(dist[mask]) < 0.6) and np.any(decided & (np.abs(dist) < 0.6)):
                ctx.probe("near_threshold_decided")
            # refractory time
            want_r = np.where(s, rt32, r1)
            if np.any(r2 != want_r):
                i = tuple(np.argwhere(r2 != want_r)[0])
                ctx.fail("refrac_state", facts, f"step {t} neuron {i}: refrac {r2[i]} expected {want_r[i]} (pre {r0[i]}, spike {bool(s[i])})")
            if np.any(r2 < 0):
                ctx.fail("refrac_negative", facts, f"step {t}: negative remaining refractory time")
            # voltages
            tolv = 1e-4 * (1 + np.abs(np.where(finite, vint, 0.0)) + np.abs(v0)) + 1e-5 * np.abs(c["R"] * ieff)
            if cls == "GLIF2":
                want_reset = c["rest"] + c["rmul"] * (vint - c["rest"]) - c["radd"]
            else:
                want_reset = np.full(bshape, float(np.float32(c["reset"])))
            for name_, sel, want in (("reset_voltage", s & finite, want_reset), ("integrated_voltage", mask & ~s & finite, vint)):
                if np.any(sel):
                    err = np.abs(v1 - want)
                    badv = sel & ~(err <= tolv)
                    if np.any(badv):
                        i = tuple(np.argwhere(badv)[0])
                        ctx.fail(name_, facts, f"step {t} neuron {i}: voltage {v1[i]} expected {want[i]} (pre {v0[i]}, I={cur32[i]})")
            if lock:
                lk = ~mask
                if np.any(lk & (v1 != v0)):
                    i = tuple(np.argwhere(lk & (v1 != v0))[0])
                    ctx.fail("voltage_lock", facts, f"step {t} neuron {i}: refractory neuron changed voltage {v0[i]} -> {v1[i]}")
            else:
                lk = ~mask & finite
                if np.any(lk):
                    badv = lk & ~(np.abs(v1 - vint) <= tolv)
                    if np.any(badv):
                        i = tuple(np.argwhere(badv)[0])
                        ctx.fail("integrated_voltage", dict(facts, unlocked=True), f"step {t} neuron {i}: unlocked refractory voltage {v1[i]} expected {vint[i]}")
            # ---- spike attribute equals the spikes just returned
            with ctx.impl("spike attribute", facts):
                sa = nrn.spike
            if tuple(sa.shape) != bshape or not np.array_equal(sa.cpu().numpy().astype(bool), s):
                ctx.fail("spike_attribute", dict(facts, refrac_t_zero=(c["refrac_t"] == 0)),
                         f"step {t}: neuron.spike differs from the spikes returned by the step")
            # ---- history oracle: silence window after a spike
            since = t - last_spike
            early = s & (since < Kmin)
            if np.any(early):
                i = tuple(np.argwhere(early)[0])
                ctx.fail("refractory_window", dict(facts, kmin=Kmin), f"neuron {i} spiked at steps {last_spike[i]} and {t}: closer than max(1, ceil({c['refrac_t']}/{dt})) = {Kmin}")
            if lock:
                inwin = (since < Kmin) & (since > 0)
                if np.any(inwin & (v1 != locked_v)):
                    i = tuple(np.argwhere(inwin & (v1 != locked_v))[0])
                    ctx.fail("refractory_window_voltage", dict(facts, kmin=Kmin), f"neuron {i}: voltage changed {locked_v[i]} -> {v1[i]} {since[i]} steps after its spike (window {Kmin})")
            np.seterr(**_err)
            last_spike = np.where(s, t, last_spike)
            locked_v = np.where(s, v1, locked_v)
            if s.any():
                saw_spike = True
                if c["refrac_t"] == 0:
                    ctx.probe("refrac_0_spike")
                if abs(c["refrac_k"] - round(c["refrac_k"])) > 1e-9:
                    ctx.probe("refrac_not_multiple_of_dt")
            if (~mask).any():
                saw_refrac = True
                if s.any():
                    ctx.probe("spike_while_other_refractory")
            if len(pattern) < 12:
                pattern.append((bool(s.any()), bool((~mask).any()), bool(und)))
        ctx.nontrivial = saw_spike and (saw_refrac or c["refrac_t"] == 0)
        ctx.state((cls, c["refrac_k"], lock, hash(tuple(pattern)) & 0xFFFFFFFF))


WORLD = NeuronWorld()
