"""encoder_world (C19): the generator seed is the random schedule.

Each run builds one encoder and issues a seeded list of encode operations (offline, online, and two
online iterators sharing one generator advanced in a scheduler-chosen interleaving), every one with its
own generator seed.  Oracles: bool dtype, time-first layout with exactly `steps` slices, silence at zero
intensity, refractory gap, at most one spike per step, reproducibility from the same generator state
(and the same interleaving).
"""
from __future__ import annotations

import torch

from ..kernel import World, stream

DTS = [1.0, 0.5, 0.25, 2.0, 0.1, 1.3]


class EncoderWorld(World):
    name = "encoder_world"
    real = ["inferno.neural.HomogeneousPoissonEncoder", "inferno.neural.HomogeneousPoissonApproxEncoder",
            "inferno.neural.PoissonIntervalEncoder", "inferno.neural.functional encoding kernels", "torch.Generator (the schedule seam)"]
    stub = []
    state_measure = "distinct (encoder kind, steps, refrac steps, compensate, online, #zero-intensity elements>0, #spikes bucket)"
    rule = ("each run = one encoder configuration + seeded encode operations, each with its own torch.Generator seed "
            "(the random schedule) and explicit intensity tensors containing exact zeros and ones; online mode also interleaves "
            "two iterators over one shared generator; non-trivial = at least one spike emitted; distinct = distinct event-log digests "
            "(which include every emitted spike train)")

    def generate(self, seed, prop, tier):
        rc, ro = stream(seed, "config"), stream(seed, "ops")
        kind = rc.choice(["refrac", "refrac", "approx", "interval"])
        dt = rc.choice(DTS)
        steps = rc.choice([1, 2, 3, 5, 8, 13, 20, 32, 40])
        freq = rc.choice([10.0, 40.0, 100.0, 200.0, 400.0])
        k = rc.choice([None, 1, 2, 3, 5])
        refrac = None if k is None else k * dt
        compensate = rc.random() < 0.5
        if kind == "refrac" and refrac is not None and freq * refrac >= 1000 * 0.9:
            # documented constraint frequency x refrac < 1000 (kept with a margin)
            freq = rc.choice([f for f in [10.0, 40.0, 100.0, 200.0] if f * refrac < 900] or [10.0])
        shape = rc.choice([[1], [3], [5], [2, 2], [2, 3]])
        cfg = {"kind": kind, "dt": dt, "steps": steps, "freq": freq, "refrac_k": k, "compensate": compensate, "shape": shape}
        ops = []
        numel = 1
        for s in shape:
            numel *= s
        for _ in range(ro.randint(1, 6)):
            vals = []
            for _e in range(numel):
                c = ro.random()
                vals.append(0.0 if c < 0.25 else 1.0 if c < 0.45 else round(ro.random(), 3))
            r = ro.random()
            mode = "offline" if r < 0.45 else "online" if r < 0.75 else "interleave"
            op = {"op": "encode", "mode": mode, "gseed": ro.randrange(1 << 31), "x": vals}
            if mode == "interleave":
                vals2 = [0.0 if ro.random() < 0.25 else round(ro.random(), 3) for _ in range(numel)]
                op["x2"] = vals2
                sched = [0] * steps + [1] * steps
                ro.shuffle(sched)
                op["schedule"] = sched
            ops.append(op)
            if ro.random() < 0.2:
                ops.append({"op": "set_steps", "v": ro.choice([1, 2, 4, 7, 16, 25])})
            if kind == "refrac" and ro.random() < 0.2:
                k2 = ro.choice([None, 1, 2, 3, 4])
                ops.append({"op": "set_refrac", "k": k2})
            if ro.random() < 0.15:
                ops.append({"op": "set_dt", "v": ro.choice(DTS + [dt, dt])})
            c2 = stream(seed, f"cfgops{len(ops)}")
            if c2.random() < 0.15:
                ops.append({"op": "set_freq", "v": c2.choice([10.0, 40.0, 100.0, 200.0, 400.0])})
            if kind == "refrac" and c2.random() < 0.12:
                ops.append({"op": "set_compensated", "v": c2.random() < 0.5})
            if c2.random() < 0.12:
                ops.append({"op": "set_generator"})
            if kind == "refrac" and c2.random() < 0.15:
                ops.append({"op": "set_freq_refused", "factor": c2.choice([1.0, 1.5, 4.0])})
        return {"config": cfg, "ops": ops}

    def execute(self, desc, ctx):
        from inferno.neural import HomogeneousPoissonApproxEncoder, HomogeneousPoissonEncoder, PoissonIntervalEncoder

        cfg = desc["config"]
        kind, dt, shape = cfg["kind"], cfg["dt"], cfg["shape"]
        st = {"steps": cfg["steps"], "k": cfg["refrac_k"], "dt": dt, "refrac_ms": None if cfg["refrac_k"] is None else cfg["refrac_k"] * dt}
        st["freq"], st["compensate"], st["gen"] = cfg["freq"], cfg["compensate"], torch.Generator()
        gen = st["gen"]
        refrac = None if st["k"] is None else st["k"] * dt
        with ctx.impl("encoder()", {"kind": kind}):
            if kind == "refrac":
                enc = HomogeneousPoissonEncoder(st["steps"], dt, cfg["freq"], refrac=refrac, compensate=cfg["compensate"], generator=gen)
            elif kind == "approx":
                enc = HomogeneousPoissonApproxEncoder(st["steps"], dt, cfg["freq"], generator=gen)
            else:
                enc = PoissonIntervalEncoder(st["steps"], dt, cfg["freq"], generator=gen)
        ctx.log("config", kind, dt, st["steps"], cfg["freq"], st["k"], cfg["compensate"], shape)

        def facts(**kw):
            f = {"kind": kind, "steps": st["steps"], "refrac_k": st["k"], "compensate": st["compensate"], "dt": st["dt"]}
            f.update(kw)
            return f

        def gap_steps():
            """minimum spike distance in steps: the configured refractory period (ms) over the current step time,
            when that is (within rounding) a whole number of steps; otherwise one step less is legitimate"""
            if kind != "refrac" or st["refrac_ms"] is None:
                return 1
            q = st["refrac_ms"] / st["dt"]
            return max(1, int(round(q)) if abs(q - round(q)) < 1e-9 else int(q))

        def check_train(train, x, where, mode):
            """train: (steps, *S) bool tensor assembled from the output"""
            ctx.judged += 1
            if train.dtype != torch.bool:
                ctx.fail("dtype", facts(op=where, mode=mode, dtype=str(train.dtype)), f"{where}: output dtype {train.dtype}, expected bool")
            if tuple(train.shape) != (st["steps"], *shape):
                ctx.fail("shape", facts(op=where, mode=mode, got=list(train.shape)), f"{where}: output shape {tuple(train.shape)}, expected {(st['steps'], *shape)}")
                return
            tr = train.reshape(st["steps"], -1).to(torch.bool)
            xs = x.reshape(-1)
            nsp = int(tr.sum())
            if nsp:
                ctx.nontrivial = True
            zero = xs == 0
            if bool(zero.any()):
                ctx.probe("zero_intensity_element")
                if bool(tr[:, zero].any()):
                    ctx.fail("spike_at_zero_intensity", facts(op=where, mode=mode), f"{where}: spike emitted for zero-intensity input")
            g = gap_steps()
            if g > 1:
                ctx.probe("refractory_gap_checked")
            for e in range(tr.shape[1]):
                times = torch.nonzero(tr[:, e]).flatten().tolist()
                for a, b in zip(times, times[1:]):
                    if b - a < g:
                        ctx.fail("refractory_gap", facts(op=where, mode=mode, gap=b - a, need=g),
                                 f"{where}: element {e} spikes at steps {a} and {b}: gap {b - a} < refractory {g} steps")
            if bool((xs == 1).any()):
                ctx.probe("full_intensity_element")
            ctx.state((kind, st["steps"], st["k"], st["compensate"], mode, bool(zero.any()), min(nsp, 20)))

        def retained(kept, outs, where, mode):
            ctx.judged += 1
            for i, (k, o) in enumerate(zip(kept, outs)):
                if isinstance(k, torch.Tensor) and (k.shape != o.shape or not torch.equal(k, o)):
                    ctx.fail("retained_slice_changed", facts(op=where, mode=mode), f"{where}: slice {i} of {len(outs)} changed after it was yielded (the iterator reuses its output storage)")
                    break

        def collect_online(it, where, mode):
            outs, kept = [], []
            n = 0
            for sl in it:
                n += 1
                if n > st["steps"] + 3:
                    break
                outs.append(sl.clone())
                kept.append(sl)         # the caller keeps what it was given: a later step must not rewrite an earlier slice
            retained(kept, outs, where, mode)
            if n != st["steps"]:
                ctx.fail("online_count", facts(op=where, mode=mode, got=n), f"{where}: online iterator yielded {n} slices, expected {st['steps']}")
            return outs

        for op in desc["ops"]:
            if op["op"] == "set_steps":
                with ctx.impl("steps setter"):
                    enc.steps = op["v"]
                st["steps"] = op["v"]
                ctx.log("set_steps", op["v"])
                continue
            if op["op"] == "set_refrac":
                if kind != "refrac":
                    continue
                k = op["k"]
                if k is not None and st["freq"] * k * st["dt"] >= 900:
                    continue
                with ctx.impl("refrac setter"):
                    enc.refrac = None if k is None else k * st["dt"]
                st["k"] = k
                st["refrac_ms"] = None if k is None else k * st["dt"]
                ctx.log("set_refrac", k)
                continue
            if op["op"] == "set_freq":
                eff = (st["refrac_ms"] if st["refrac_ms"] is not None else st["dt"]) if kind == "refrac" else 0.0
                if op["v"] * eff >= 900:
                    continue
                with ctx.impl("frequency setter"):
                    enc.frequency = op["v"]
                st["freq"] = op["v"]
                ctx.log("set_freq", op["v"])
                ctx.fault("frequency_reassigned")
                continue
            if op["op"] == "set_freq_refused":
                # a frequency the documented compatibility test (frequency x refrac < 1000, with compensation on) refuses: the encoder keeps its configuration
                if kind != "refrac" or not st["compensate"]:
                    continue
                eff = st["refrac_ms"] if st["refrac_ms"] is not None else st["dt"]
                bad = op["factor"] * 1000.0 / eff
                refused = False
                try:
                    enc.frequency = bad
                except ValueError:
                    refused = True
                except Exception as e:      # noqa: BLE001
                    ctx.fail("unexpected_exception", facts(op="frequency setter (refused value)", exc=type(e).__name__), f"frequency setter raised {type(e).__name__}: {e}")
                    continue
                ctx.fault("refused_frequency_assignment")
                ctx.log("set_freq_refused", bad, refused)
                ctx.judged += 1
                if refused and abs(enc.frequency - st["freq"]) > 1e-12:
                    ctx.fail("refused_side_effect", facts(op="frequency setter"), f"frequency = {bad} was refused but the encoder now reports frequency {enc.frequency} (was {st['freq']})")
                    st["freq"] = enc.frequency
                elif not refused:
                    st["freq"] = bad
                continue
            if op["op"] == "set_compensated":
                with ctx.impl("compensated setter"):
                    enc.compensated = op["v"]
                st["compensate"] = op["v"]
                ctx.log("set_compensated", op["v"])
                continue
            if op["op"] == "set_generator":
                st["gen"] = torch.Generator()
                with ctx.impl("generator setter"):
                    enc.generator = st["gen"]
                ctx.log("set_generator")
                ctx.fault("generator_replaced")
                continue
            if op["op"] == "set_dt":
                v = op["v"]
                if kind == "refrac" and st["refrac_ms"] is not None and (st["freq"] * st["refrac_ms"] >= 900):
                    continue
                if kind == "refrac" and st["refrac_ms"] is None and st["freq"] * v >= 900:
                    continue
                with ctx.impl("dt setter"):
                    enc.dt = v
                st["dt"] = v
                ctx.log("set_dt", v)
                ctx.fault("dt_reassigned")
                if kind == "refrac":
                    want = v if st["refrac_ms"] is None else st["refrac_ms"]
                    if abs(enc.refrac - want) > 1e-12:
                        ctx.fail("refrac_after_dt", facts(op="set_dt"), f"after dt = {v} the encoder reports refrac {enc.refrac}, configured {want}")
                continue
            x = torch.tensor(op["x"], dtype=torch.float32).reshape(shape)
            mode = op["mode"]
            ctx.step(st["steps"], st["dt"])
            if mode == "offline":
                res = []
                for rep in range(2):
                    st["gen"].manual_seed(op["gseed"])
                    with ctx.impl("encode offline", facts(mode=mode)) as reg:
                        out = enc(x.clone())
                    if reg.waived:
                        break
                    if not isinstance(out, torch.Tensor):
                        ctx.fail("shape", facts(op="offline", mode=mode), f"offline forward returned {type(out).__name__}")
                    res.append(out)
                if len(res) < 2:
                    continue
                check_train(res[0], x, "offline", mode)
                ctx.log("offline", op["gseed"], res[0])
                if res[0].shape != res[1].shape or not torch.equal(res[0], res[1]):
                    ctx.fail("not_reproducible", facts(op="offline", mode=mode), "same generator state gave a different spike train")
            elif mode == "online":
                res = []
                for rep in range(2):
                    st["gen"].manual_seed(op["gseed"])
                    with ctx.impl("encode online", facts(mode=mode)) as reg:
                        outs = collect_online(enc(x.clone(), online=True), "online", mode)
                    if reg.waived:
                        break
                    res.append(outs)
                if len(res) < 2:
                    continue
                ok_shapes = all(isinstance(o, torch.Tensor) and tuple(o.shape) == tuple(shape) for o in res[0])
                if not ok_shapes:
                    ctx.fail("shape", facts(op="online", mode=mode), f"online slices have shapes {[tuple(o.shape) for o in res[0]][:3]}, expected {tuple(shape)}")
                    continue
                train = torch.stack(res[0], 0) if res[0] else torch.zeros(0, *shape, dtype=torch.bool)
                check_train(train, x, "online", mode)
                ctx.log("online", op["gseed"], train)
                if len(res[0]) != len(res[1]) or any(not torch.equal(a, b) for a, b in zip(res[0], res[1])):
                    ctx.fail("not_reproducible", facts(op="online", mode=mode), "same generator state gave a different online spike train")
            else:
                x2 = torch.tensor(op["x2"], dtype=torch.float32).reshape(shape)
                sched = [s for s in op["schedule"]]
                res = []
                for rep in range(2):
                    st["gen"].manual_seed(op["gseed"])
                    outs = ([], [])
                    kept = ([], [])
                    with ctx.impl("encode interleaved", facts(mode=mode)) as reg:
                        its = (iter(enc(x.clone(), online=True)), iter(enc(x2.clone(), online=True)))
                        done = [0, 0]
                        for who in sched:
                            if done[who] >= st["steps"]:
                                continue
                            try:
                                kept[who].append(next(its[who]))
                                outs[who].append(kept[who][-1].clone())
                            except StopIteration:
                                ctx.fail("online_count", facts(op="interleave", mode=mode, got=done[who]),
                                         f"interleaved iterator {who} stopped after {done[who]} slices, expected {st['steps']}")
                                break
                            done[who] += 1
                        # drain whatever the (possibly resized) schedule did not cover, still deterministically
                        for who in (0, 1):
                            while done[who] < st["steps"]:
                                try:
                                    outs[who].append(next(its[who]).clone())
                                except StopIteration:
                                    ctx.fail("online_count", facts(op="interleave", mode=mode, got=done[who]),
                                             f"interleaved iterator {who} stopped after {done[who]} slices, expected {st['steps']}")
                                    break
                                done[who] += 1
                        for who in (0, 1):
                            retained(kept[who], outs[who], f"interleave[{who}]", mode)
                        for who in (0, 1):
                            extra = sum(1 for _ in its[who])
                            if extra:
                                ctx.fail("online_count", facts(op="interleave", mode=mode, got=st["steps"] + extra),
                                         f"interleaved iterator {who} yielded {st['steps'] + extra} slices")
                    if reg.waived:
                        break
                    res.append(outs)
                if len(res) < 2:
                    continue
                ctx.fault("interleaved_shared_generator")
                for who, xx in ((0, x), (1, x2)):
                    sl = res[0][who]
                    if not all(tuple(o.shape) == tuple(shape) for o in sl):
                        ctx.fail("shape", facts(op="interleave", mode=mode), "interleaved online slices have the wrong shape")
                        continue
                    check_train(torch.stack(sl, 0), xx, f"interleave[{who}]", mode)
                    ctx.log("interleave", who, torch.stack(sl, 0))
                for who in (0, 1):
                    if len(res[0][who]) != len(res[1][who]) or any(not torch.equal(a, b) for a, b in zip(res[0][who], res[1][who])):
                        ctx.fail("not_reproducible", facts(op="interleave", mode=mode), "same generator state and interleaving gave different spike trains")


WORLD = EncoderWorld()
