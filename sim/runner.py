"""Batch runner, minimiser, replay files and evidence writer."""
from __future__ import annotations

import copy
import faulthandler
import gc
import json
import multiprocessing as mp
import os
import subprocess
import sys
import time
import traceback
from collections import Counter
from concurrent.futures import ProcessPoolExecutor, as_completed

from .kernel import ENGINE_VERSION, Ctx, HarnessError, Known, Violation, run_seed, _plain

VERIF = os.path.dirname(os.path.dirname(os.path.abspath(__file__)))
KNOWN_PATH = os.path.join(VERIF, "known_findings.jsonl")
REPLAY_DIR = os.path.join(VERIF, "replays")
EVIDENCE_DIR = os.environ.get("VERIF_EVIDENCE_DIR") or os.path.join(VERIF, "evidence")
if os.environ.get("VERIF_REPO"):
    REPLAY_DIR = os.path.join(os.environ["VERIF_REPO"], "_replays")  # self-tests against scratch copies


# --------------------------------------------------------------------------- single run
_FROZEN = False


def execute_once(world, prop: str, desc: dict, known: Known | None, collect=True):
    """Execute one description. Returns (ctx, violation-or-None)."""
    ctx = Ctx(prop, known, collect=collect)
    global _FROZEN
    if not _FROZEN:
        # everything imported so far (torch, inferno, the worlds) goes to the permanent generation so that
        # the gc.collect() calls worlds use as "object death" faults only scan objects created by runs
        gc.collect()
        gc.freeze()
        _FROZEN = True
    was = gc.isenabled()
    gc.disable()
    try:
        world.execute(copy.deepcopy(desc), ctx)
        return ctx, None
    except Violation as v:
        return ctx, v
    finally:
        if was:
            gc.enable()


def _worker_init():
    import torch

    torch.set_num_threads(1)
    try:
        torch.set_num_interop_threads(1)
    except RuntimeError:
        pass


def _work(args):
    """Runs seeds [lo, hi) of a batch inside a worker; returns aggregated statistics."""
    prop, world_name, tier, verif_seed, lo, hi, deadline, chunk_timeout = args
    from .registry import load_world

    world = load_world(world_name)
    known = Known(KNOWN_PATH)
    faulthandler.dump_traceback_later(chunk_timeout, exit=True)
    out = {
        "runs": 0,
        "digests": set(),
        "nontrivial": 0,
        "faults": Counter(),
        "probes": Counter(),
        "states": set(),
        "known": Counter(),
        "sim_steps": 0,
        "sim_time_ms": 0.0,
        "undecided": 0,
        "judged": 0,
        "violations": [],
        "samples": [],
        "harness_errors": [],
        "lo": lo,
        "hi": hi,
        "done_hi": lo,
    }
    try:
        for i in range(lo, hi):
            if time.monotonic() > deadline:
                break
            seed = run_seed(verif_seed, prop, i)
            try:
                desc = world.generate(seed, prop, tier)
                ctx, v = execute_once(world, prop, desc, known)
            except Violation as v2:  # raised from generate (should not happen)
                out["harness_errors"].append((i, "violation raised in generate: " + str(v2)))
                continue
            except Exception:
                out["harness_errors"].append((i, traceback.format_exc()[-3000:]))
                if len(out["harness_errors"]) > 3:
                    break
                continue
            out["runs"] += 1
            out["done_hi"] = i + 1
            out["faults"].update(ctx.faults)
            out["probes"].update(ctx.probes)
            out["states"].update(ctx.states)
            out["known"].update(ctx.known_hits)
            out["sim_steps"] += ctx.sim_steps
            out["sim_time_ms"] += ctx.sim_time_ms
            out["undecided"] += ctx.undecided
            out["judged"] += ctx.judged
            if ctx.nontrivial:
                out["nontrivial"] += 1
                out["digests"].add(int(ctx.digest()[:16], 16))
            if len(out["samples"]) < 1 and ctx.nontrivial:
                out["samples"].append({"index": i, "seed": seed, "desc": desc})
            if v is not None:
                nsame = sum(1 for r in out["violations"] if r["oracle_id"] == v.oracle_id and r["desc"] is not None)
                out["violations"].append({"index": i, "seed": seed, "desc": desc if nsame < 3 else None, **v.record()})
            if (i & 63) == 0:
                gc.collect()
    finally:
        faulthandler.cancel_dump_traceback_later()
    return out


# --------------------------------------------------------------------------- minimiser
def _same_class(world, prop, desc, known, oracle_id):
    try:
        _, v = execute_once(world, prop, desc, known, collect=False)
    except Exception:
        return False
    return v is not None and v.oracle_id == oracle_id


def minimise(world, prop, desc, oracle_id, known, budget_s=20.0):
    """ddmin over desc['ops'] (and world-specific shrinks) keeping (property, oracle_id)."""
    t_end = time.monotonic() + budget_s
    best = copy.deepcopy(desc)
    if not _same_class(world, prop, best, known, oracle_id):
        return best, False  # not reproducible in-process: keep original
    ops = best.get("ops")
    if isinstance(ops, list) and len(ops) > 1:
        n = 2
        while len(ops) >= 2 and time.monotonic() < t_end:
            chunk = max(1, len(ops) // n)
            reduced = False
            for start in range(0, len(ops), chunk):
                if time.monotonic() > t_end:
                    break
                cand_ops = ops[:start] + ops[start + chunk:]
                if not cand_ops:
                    continue
                cand = dict(best, ops=cand_ops)
                if _same_class(world, prop, cand, known, oracle_id):
                    ops = cand_ops
                    best = cand
                    n = max(n - 1, 2)
                    reduced = True
                    break
            if not reduced:
                if chunk == 1:
                    break
                n = min(n * 2, len(ops))
    # world specific shrinking passes (fixpoint)
    progress = True
    while progress and time.monotonic() < t_end:
        progress = False
        for cand in world.shrink(best):
            if time.monotonic() > t_end:
                break
            if _same_class(world, prop, cand, known, oracle_id):
                best = cand
                progress = True
                break
    return best, True


def write_replay(prop, world_name, rec, desc, minimised, original_ops):
    os.makedirs(REPLAY_DIR, exist_ok=True)
    path = os.path.join(REPLAY_DIR, f"{prop}-{rec['seed']}-{rec['oracle_id']}.json")
    body = {
        "property": prop,
        "world": world_name,
        "seed": rec["seed"],
        "index": rec["index"],
        "engine": ENGINE_VERSION,
        "desc": desc,
        "expect": {"oracle_id": rec["oracle_id"], "facts": rec["facts"], "msg": rec["msg"]},
        "minimised": bool(minimised),
        "original_ops": original_ops,
    }
    with open(path, "w") as f:
        json.dump(_plain(body), f, indent=1)
    return path


def replay_file(path: str, quiet=False) -> int:
    from .registry import load_world

    body = json.load(open(path))
    prop = body["property"]
    world = load_world(body["world"])
    known = Known(KNOWN_PATH)
    ctx, v = execute_once(world, prop, body["desc"], known)
    if v is None:
        print(f"REPLAY-OK property={prop} file={path} (no violation; known hits: {dict(ctx.known_hits)})")
        return 0
    print(f"REPLAY oracle={v.oracle_id} facts={json.dumps(v.facts, sort_keys=True)}")
    print(f"REPLAY msg={v.msg}")
    print(f"REPLAY digest={ctx.digest()}")
    if body.get("digest"):
        print("REPLAY digest-matches-recorded=" + str(body["digest"] == ctx.digest()).lower())
    print(f"VIOLATION property={prop} replay={path}")
    return 1


def _verify_fresh(prop, path, oracle_id) -> bool:
    """Replay in a fresh interpreter; must fail with the same oracle.  The event-log digest of that fresh
    execution is recorded in the replay file so that later replays can show they are bit-identical."""
    try:
        r = subprocess.run(
            [os.path.join(VERIF, "check"), prop, "--replay", path],
            capture_output=True, text=True, timeout=300,
        )
    except Exception:
        return False
    ok = r.returncode == 1 and f"REPLAY oracle={oracle_id} " in r.stdout
    if ok:
        for line in r.stdout.splitlines():
            if line.startswith("REPLAY digest="):
                try:
                    body = json.load(open(path))
                    body["digest"] = line.split("=", 1)[1].strip()
                    with open(path, "w") as f:
                        json.dump(body, f, indent=1)
                except Exception:
                    pass
    return ok


# --------------------------------------------------------------------------- batch
def run_batch(prop, spec, tier, verif_seed, runs=None, wall=None, workers=None, start=0):
    from .registry import load_world

    t0 = time.monotonic()
    world_name = spec["world"]
    world = load_world(world_name)
    budget = spec[tier]
    runs = int(runs if runs is not None else budget["runs"])
    wall = float(wall if wall is not None else budget["wall"])
    workers = int(workers or os.environ.get("VERIF_WORKERS") or min(16, os.cpu_count() or 1))
    chunk = max(1, min(budget.get("chunk", 200), (runs + workers * 4 - 1) // (workers * 4)))
    deadline = t0 + wall
    chunk_timeout = max(120.0, wall + 120.0)
    jobs = [
        (prop, world_name, tier, verif_seed, lo, min(lo + chunk, start + runs), deadline, chunk_timeout)
        for lo in range(start, start + runs, chunk)
    ]
    agg = {
        "runs": 0, "digests": set(), "nontrivial": 0, "faults": Counter(), "probes": Counter(),
        "states": set(), "known": Counter(), "sim_steps": 0, "sim_time_ms": 0.0,
        "undecided": 0, "judged": 0, "violations": [], "samples": [], "harness_errors": [],
    }
    harness_fail = None
    if workers <= 1:
        _worker_init()
        results = (_work(j) for j in jobs)
        pool = None
    else:
        pool = ProcessPoolExecutor(max_workers=workers, mp_context=mp.get_context("fork"),
                                   initializer=_worker_init)
        futs = [pool.submit(_work, j) for j in jobs]
        results = (f.result() for f in as_completed(futs))
    try:
        for out in results:
            agg["runs"] += out["runs"]
            agg["digests"] |= out["digests"]
            agg["nontrivial"] += out["nontrivial"]
            for k in ("faults", "probes", "known"):
                agg[k].update(out[k])
            agg["states"] |= out["states"]
            agg["sim_steps"] += out["sim_steps"]
            agg["sim_time_ms"] += out["sim_time_ms"]
            agg["undecided"] += out["undecided"]
            agg["judged"] += out["judged"]
            agg["violations"].extend(out["violations"])
            agg["samples"].extend(out["samples"])
            agg["samples"] = sorted(agg["samples"], key=lambda r: r["index"])[:3]
            agg["harness_errors"].extend(out["harness_errors"])
    except Exception as e:  # worker death, watchdog
        harness_fail = f"{type(e).__name__}: {e}"
    finally:
        if pool is not None:
            pool.shutdown(wait=True, cancel_futures=True)

    wall_runs = time.monotonic() - t0
    known = Known(KNOWN_PATH)

    # ---- known findings
    for text, n in sorted(agg["known"].items()):
        print(f"KNOWN-FINDING: property={prop} {text} (hit {n}x)")

    # ---- violations: group by oracle, minimise, verify, report
    exit_code = 0
    reported = []
    if agg["violations"]:
        exit_code = 1
        groups: dict[str, list] = {}
        for rec in sorted(agg["violations"], key=lambda r: r["index"]):
            groups.setdefault(rec["oracle_id"], []).append(rec)
        min_budget = 20.0 if tier == "quick" else 120.0
        for oracle_id, recs in list(groups.items())[:4]:
            withdesc = [r for r in recs if r["desc"] is not None] or recs[:1]
            rec = min(withdesc, key=lambda r: len(json.dumps(_plain(r["desc"]))))
            orig_ops = len(rec["desc"].get("ops", [])) if isinstance(rec["desc"].get("ops"), list) else None
            mdesc, ok = minimise(world, prop, rec["desc"], oracle_id, known, budget_s=min_budget / max(1, min(4, len(groups))))
            path = write_replay(prop, world_name, rec, mdesc, ok, orig_ops)
            if not _verify_fresh(prop, path, oracle_id):
                # fall back to the un-minimised description, then to the other recorded runs of this class (a failure that depends on
                # state leaked from earlier runs of the same worker process does not reproduce alone; another run of the class may)
                path = write_replay(prop, world_name, rec, rec["desc"], False, orig_ops)
                ok_fresh = _verify_fresh(prop, path, oracle_id)
                for alt in [r for r in withdesc if r is not rec][:6]:
                    if ok_fresh:
                        break
                    path = write_replay(prop, world_name, alt, alt["desc"], False, None)
                    ok_fresh = _verify_fresh(prop, path, oracle_id)
                    if ok_fresh:
                        rec, mdesc = alt, alt["desc"]
                if not ok_fresh:
                    print(f"HARNESS-ERROR property={prop} violation oracle={oracle_id} seed={rec['seed']} "
                          f"did not reproduce in a fresh interpreter (replay kept at {path})")
                    continue
            nops = len(mdesc.get("ops", [])) if isinstance(mdesc.get("ops"), list) else None
            print(f"VIOLATION property={prop} replay={path}")
            print(f"  oracle={oracle_id} count={len(recs)} seed={rec['seed']} ops={orig_ops}->{nops} facts={json.dumps(rec['facts'], sort_keys=True)[:400]}")
            print(f"  {rec['msg'][:500]}")
            reported.append({"oracle_id": oracle_id, "count": len(recs), "replay": path, "facts": rec["facts"]})
        if not reported and exit_code == 1:
            exit_code = 2

    if agg["harness_errors"] or harness_fail:
        for i, tb in agg["harness_errors"][:3]:
            print(f"HARNESS-ERROR property={prop} run index={i}\n{tb}")
        if harness_fail:
            print(f"HARNESS-ERROR property={prop} {harness_fail}")
        if exit_code == 0:
            exit_code = 2

    wall_total = time.monotonic() - t0
    distinct = len(agg["digests"])
    evidence = {
        "property_id": prop,
        "tier": tier,
        "seed": int(verif_seed),
        "level": spec["level"],
        "coverage": {
            "evaluations": agg["runs"],
            "distinct_nontrivial": distinct,
            "rule": world.rule or spec.get("rule", ""),
            "samples": _plain(agg["samples"][:3]),
            "runs_requested": runs,
            "run_index_range": [start, start + runs],
            "nontrivial_runs": agg["nontrivial"],
            "runs_per_hour": int(agg["runs"] / max(wall_runs, 1e-6) * 3600),
            "sim_steps": agg["sim_steps"],
            "sim_time_ms": round(agg["sim_time_ms"], 3),
            "faults_fired": dict(sorted(agg["faults"].items())),
            "probes": dict(sorted(agg["probes"].items())),
            "distinct_states": len(agg["states"]),
            "state_measure": world.state_measure,
            "oracle_judgements": agg["judged"],
            "undecided": agg["undecided"],
            "components": {"real": world.real, "stub": world.stub},
            "known_findings_hit": dict(agg["known"]),
            "violation_classes": reported,
            "workers": workers,
            "exhaustive": False,
        },
        "assumptions": spec.get("assumptions", []),
        "wall_s": round(wall_total, 3),
        "violations": len(agg["violations"]),
    }
    os.makedirs(EVIDENCE_DIR, exist_ok=True)
    with open(os.path.join(EVIDENCE_DIR, f"{prop}.json"), "w") as f:
        json.dump(evidence, f, indent=1, sort_keys=False)
    print(f"[{prop}] tier={tier} runs={agg['runs']}/{runs} distinct={distinct} states={len(agg['states'])} "
          f"steps={agg['sim_steps']} faults={sum(agg['faults'].values())} undecided={agg['undecided']} "
          f"violations={len(agg['violations'])} known={sum(agg['known'].values())} wall={wall_total:.1f}s exit={exit_code}")
    return exit_code
