"""Sensitivity self-test: realistic single-site edits of inferno, applied to a scratch copy under
/var/tmp (never /repo), each of which the mapped check must report as VIOLATION within a small budget.

usage: /venv/bin/python selftest/mutants.py [id ...]      (no ids = all)
"""
import os, shutil, subprocess, sys, tempfile

V = os.path.dirname(os.path.dirname(os.path.abspath(__file__)))
INFRA = "inferno/core/infrastructure.py"

# (id, property, runs, file, old, new)
MUTANTS = [
    ("rec_unwind_tensor_off_by_one", "C01", 3000, INFRA,
     "    return (pointer - offset.long()) % size", "    return (pointer - offset.long() - (offset.long() == size).long()) % size"),
    ("rec_readrange_backshift", "C01", 3000, INFRA,
     "        if not forward:\n            offset = offset + (length - 1)\n\n        # cannot read", "        if not forward:\n            offset = offset + length\n\n        # cannot read"),
    ("rec_writerange_wrap_order", "C01", 3000, INFRA,
     "                        data[slice(length - (recordsz - ptr), ptr), ...],", "                        data[slice(length - (recordsz - ptr) - 1, ptr - 1), ...],"),
    ("rec_align_roll_sign", "C01", 3000, INFRA,
     "self.__data = data.roll(index - self.__pointer, 0)", "self.__data = data.roll(self.__pointer - index, 0)"),
    ("sel_ceil_floor_swapped", "C02", 3000, INFRA,
     "            prev_idx, next_idx = offset.ceil(), offset.floor()\n            stacked_idx = _unwind_tensor_ptr(\n                ptr, torch.cat((prev_idx, next_idx), 0), recordsz\n            )\n\n            # get stored observations at specified indices\n            prev_data, next_data = torch.tensor_split(\n                torch.gather(data, 0, stacked_idx),\n                (offset.shape[0],),",
     "            prev_idx, next_idx = offset.floor(), offset.ceil()\n            stacked_idx = _unwind_tensor_ptr(\n                ptr, torch.cat((prev_idx, next_idx), 0), recordsz\n            )\n\n            # get stored observations at specified indices\n            prev_data, next_data = torch.tensor_split(\n                torch.gather(data, 0, stacked_idx),\n                (offset.shape[0],),"),
    ("sel_scalar_tolerance_ignored", "C02", 3000, INFRA,
     "            if abs(dt * round(shift) - time) <= tolerance:\n                return data[", "            if abs(dt * round(shift) - time) <= 1e-6:\n                return data["),
    ("sel_upper_limit_inclusive_size", "C02", 3000, INFRA,
     "            if time < -tolerance or time > dt * (recordsz - 1) + tolerance:", "            if time < -tolerance or time > dt * recordsz + tolerance:", 0),
    ("ins_sample_at_complement", "C02", 3000, INFRA,
     "            prev_exobs, next_exobs = extrap(\n                obs,\n                dt - dt * (shift % 1),", "            prev_exobs, next_exobs = extrap(\n                obs,\n                dt * (shift % 1),"),
    ("hook_no_finalizer", "C16", 3000, INFRA,
     "            self.__finalizer = weakref.finalize(\n                self, _detach_handles, self.__prehook_handle, self.__posthook_handle\n            )\n\n        else:",
     "            self.__finalizer = None\n\n        else:"),
    ("hook_posthook_eval_ignores_mode", "C16", 3000, INFRA,
     "        if self.evalexec and not module.training:\n            return self._posthook_call(module, *args, **kwargs)",
     "        if self.evalexec and not (module.training and self.trainexec):\n            return self._posthook_call(module, *args, **kwargs)"),
    ("hook_manual_force_and", "C16", 3000, INFRA,
     "        if self.registered or force:\n            if ignore_mode:", "        if self.registered and (force or not ignore_mode) or force and not ignore_mode:\n            if ignore_mode:"),
    ("hook_deregister_keeps_prehandle", "C16", 3000, INFRA,
     "        _detach_handles(self.__prehook_handle, self.__posthook_handle)\n        self.__prehook_handle = None",
     "        _detach_handles(self.__posthook_handle)\n        self.__prehook_handle = None"),
    ("clamp_min_only_when_both", "C16", 3000, "inferno/neural/hooks.py",
     "                min=self.clampmin,\n                max=self.clampmax,", "                min=self.clampmin,\n                max=(self.clampmax if self.clampmin is None or self.clampmax >= 1 else None),"),
    ("fold_clear_forgets_initial", "C07", 3000, "inferno/observe/reducers/base.py",
     "            self.data_.deinitialize(False)\n        self._initial = True", "            self.data_.deinitialize(False)\n            self._initial = True"),
    ("dump_no_flip", "C07", 3000, "inferno/observe/reducers/base.py",
     "            return self.data_.value.flip(0)", "            return self.data_.value.roll(1, 0).flip(0)"),
    ("event_interp_uses_newer", "C07", 3000, "inferno/observe/reducers/general.py",
     "        return prev_data + sample_at", "        return next_data + sample_at"),
    ("ca_clear_keeps_count", "C07", 3000, "inferno/observe/reducers/stats.py",
     "        self._count = 0\n        FoldReducer.clear", "        FoldReducer.clear"),
    ("trace_nearest_initial_ignores_amp_sign", "C07", 3000, "inferno/core/trace.py",
     "    if trace is None:\n        return amplitude * mask.to(dtype=observation.dtype)\n    else:\n        return torch.where(mask, amplitude, decay * trace)",
     "    if trace is None:\n        return abs(amplitude) * mask.to(dtype=observation.dtype)\n    else:\n        return torch.where(mask, amplitude, decay * trace)"),
    ("trace_cum_scaled_decays_new", "C07", 3000, "inferno/core/trace.py",
     "        return (decay * trace) + (scale * observation + amplitude) * mask", "        return decay * (trace + (scale * observation + amplitude) * mask)"),
    ("nrn_alif_dt_setter_ignored", "C03", 4000, "inferno/neural/neurons/linear.py",
     '    @dt.setter\n    def dt(self, value: float) -> None:\n        self.step_time = argtest.gt("dt", value, 0, float)',
     '    @dt.setter\n    def dt(self, value: float) -> None:\n        argtest.gt("dt", value, 0, float)', 1),
    ("trace_nearest_dt_setter_keeps_decay", "C07", 6000, "inferno/observe/reducers/trace.py",
     "        FoldReducer.dt.fset(self, value)\n        self.decay = exp(-self.dt / self.time_constant)", "        FoldReducer.dt.fset(self, value)", 0),
    ("nrn_refrac_no_clamp", "C03", 2000, "inferno/neural/functional/neuron_dynamics.py",
     "    refracs = (refracs - step_time).clamp(min=0)\n    mask = refracs == 0\n\n    # compute updated voltages\n    if voltages is None:\n        voltages = dynamics(inputs * mask)\n    else:\n        voltages = voltages.where(~mask, dynamics(inputs * mask))\n\n    # determine which neurons have spiked\n    spikes = torch.logical_and(mask, voltages >= thresh_v)\n\n    # set refractory period and voltages of fired neurons to their reset state\n    refracs = refracs.where(~spikes, refrac_t)\n    voltages = voltages.where(~spikes, reset_v)",
     "    refracs = (refracs - step_time)\n    mask = refracs <= 0\n\n    # compute updated voltages\n    if voltages is None:\n        voltages = dynamics(inputs * mask)\n    else:\n        voltages = voltages.where(~mask, dynamics(inputs * mask))\n\n    # determine which neurons have spiked\n    spikes = torch.logical_and(mask, voltages >= thresh_v)\n\n    # set refractory period and voltages of fired neurons to their reset state\n    refracs = refracs.where(~spikes, refrac_t)\n    voltages = voltages.where(~spikes, reset_v)"),
    ("nrn_thresh_strict", "C03", 2000, "inferno/neural/functional/neuron_dynamics.py",
     "    spikes = torch.logical_and(mask, voltages >= thresh_v)\n\n    # set refractory period and voltages of fired neurons to their reset state\n    refracs = refracs.where(~spikes, refrac_t)\n    voltages = voltages.where(\n",
     "    spikes = torch.logical_and(mask, voltages > thresh_v + 0.02)\n\n    # set refractory period and voltages of fired neurons to their reset state\n    refracs = refracs.where(~spikes, refrac_t)\n    voltages = voltages.where(\n"),
    ("nrn_mask_uses_old_refrac", "C03", 2000, "inferno/neural/functional/neuron_dynamics.py",
     "    refracs = (refracs - step_time).clamp(min=0)\n    mask = refracs == 0\n\n    # compute updated voltages\n    if voltages is None:\n        voltages = dynamics(inputs * mask)\n    else:\n        voltages = voltages.where(~mask, dynamics(inputs * mask))\n\n    # determine which neurons have spiked\n    spikes = torch.logical_and(mask, voltages >= thresh_v)\n\n    # set refractory period and voltages of fired neurons to their reset state\n    refracs = refracs.where(~spikes, refrac_t)\n    voltages = voltages.where(\n",
     "    mask = refracs <= step_time * 1.5\n    refracs = (refracs - step_time).clamp(min=0)\n\n    # compute updated voltages\n    if voltages is None:\n        voltages = dynamics(inputs * mask)\n    else:\n        voltages = voltages.where(~mask, dynamics(inputs * mask))\n\n    # determine which neurons have spiked\n    spikes = torch.logical_and(mask, voltages >= thresh_v)\n\n    # set refractory period and voltages of fired neurons to their reset state\n    refracs = refracs.where(~spikes, refrac_t)\n    voltages = voltages.where(\n"),
    ("nrn_qif_input_unscaled", "C03", 2000, "inferno/neural/functional/neuron_dynamics.py",
     "    return voltages + decay * (dyn_v + (resistance * masked_inputs))", "    return voltages + decay * dyn_v + (resistance * masked_inputs) * min(decay, 1.0)"),
    ("nrn_alif_threshold_first_only", "C03", 2000, "inferno/neural/functional/neuron_adaptation.py",
     "    return threshold + torch.sum(adaptations, dim=-1)", "    return threshold + adaptations[..., 0]"),
    ("acc_pos_append_keeps_cache", "C10", 2000, "inferno/neural/modeling.py",
     "            self._pos.append(value)\n            self._pos_cache.cache_clear()", "            self._pos.append(value)\n            if len(self._pos) == 1: self._pos_cache.cache_clear()"),
    ("acc_neg_delete_keeps_cache", "C10", 2000, "inferno/neural/modeling.py",
     "        self._neg = nn.ParameterList()\n        self._neg_cache.cache_clear()", "        self._neg = nn.ParameterList()"),
    ("updatesome_clears_all", "C10", 2000, "inferno/neural/modeling.py",
     "                getattr(self.updater, p).clear(**kwargs)", "                self.updater.clear(**kwargs)"),
    ("bound_lower_mult_wrong_side", "C10", 2000, "inferno/functional/bounding.py",
     "    return (param - limit) * update", "    return torch.abs(limit - param) * update"),
    ("bound_sharp_moves_at_limit", "C10", 2000, "inferno/functional/bounding.py",
     "    diff = limit - param\n    return torch.heaviside(diff, zeros(diff, shape=())) * update", "    diff = limit - param\n    return torch.heaviside(diff + 0.05, zeros(diff, shape=())) * update"),
    ("bound_smult_range_ignored", "C10", 2000, "inferno/functional/bounding.py",
     "    return (limit - param) / range * update", "    return (limit - param) / max(range, 1.0) * update"),
    ("syn_select_drops_tolerance", "C04", 8000, "inferno/neural/synapses/mixins.py",
     "                interpolation,\n                tolerance=tolerance,\n                interp_kwargs=interp_kwargs,", "                interpolation,\n                interp_kwargs=interp_kwargs,"),
    ("fold_view_drops_tolerance", "C07", 8000, "inferno/observe/reducers/base.py",
     "self.data_.select(time, self.interpolate, tolerance=tolerance)", "self.data_.select(time, self.interpolate)"),
    ("syn_clamp_uses_recordsz", "C04", 3000, "inferno/neural/synapses/mixins.py",
     "        bounded_selector = selector.clamp(min=0, max=value.duration)", "        bounded_selector = selector.clamp(min=0, max=value.dt * value.recordsz)"),
    ("syn_overbound_strict", "C04", 3000, "inferno/neural/synapses/mixins.py",
     "            (selector - bounded_selector).abs() <= tolerance, res, overbound", "            (selector - bounded_selector).abs() < tolerance, res, overbound"),
    ("syn_exp_decay_uses_tau_wrong", "C04", 3000, "inferno/neural/synapses/expcurrent.py",
     "            self.current * math.exp(-self.dt / self.time_constant)\n            + (self.spike_charge / self.time_constant) * inputs[0]",
     "            self.current * math.exp(-self.dt / self.time_constant)\n            + (self.spike_charge / self.time_constant) * inputs[0] * min(1.0, self.time_constant / self.dt * 4)"),
    ("syn_dexp_clear_forgets_neg", "C04", 3000, "inferno/neural/synapses/expcurrent.py",
     "        self.pos_current_.reset(0.0)\n        self.neg_current_.reset(0.0)", "        self.pos_current_.reset(0.0)"),
    ("syn_deltaplus_inject_dropped_when_spike", "C04", 3000, "inferno/neural/synapses/current.py",
     "        self.current = sum((inputs[0] * (self.spike_charge / self.dt), *inputs[1:]))", "        self.current = sum((inputs[0] * (self.spike_charge / self.dt), *[i * (inputs[0] == 0) for i in inputs[1:]]))"),
    ("lat_weight_setter_unmasked", "C05", 2000, "inferno/neural/connections/linear.py",
     "        WeightBiasDelayMixin.weight.fset(self, value * self.mask)", "        WeightBiasDelayMixin.weight.fset(self, value if value.dim() == 2 and value.shape[0] > 3 else value * self.mask)"),
    ("lat_delay_setter_unmasked", "C05", 2000, "inferno/neural/connections/linear.py",
     "        WeightBiasDelayMixin.delay.fset(self, value * self.mask)", "        WeightBiasDelayMixin.delay.fset(self, value)"),
    ("conv_unfold_ignores_dilation_int", "C05", 2000, "inferno/neural/connections/conv.py",
     "            return F.unfold(\n                data.to(dtype=self.weight.dtype),\n                self.kernel,\n                dilation=self.dilation,", "            return F.unfold(\n                data.to(dtype=self.weight.dtype),\n                self.kernel,\n                dilation=1,"),
    ("direct_bias_scaled", "C05", 2000, "inferno/neural/connections/linear.py",
     "            res = res * self.weight + self.bias\n", "            res = (res + self.bias) * self.weight\n"),
    ("conv_bias_per_position", "C05", 2000, "inferno/neural/connections/conv.py",
     "            return res + ein.rearrange(self.bias, \"f -> 1 f 1 1\")", "            return res + ein.rearrange(self.bias, \"f -> 1 f 1 1\") * (res != 0)"),
    ("dense_delayed_uses_present", "C06", 2000, "inferno/neural/base.py",
     "        if self.delayedby:\n            return self.synapse.current_at(self.selector)", "        if self.delayedby and self.synapse.delay > 2 * self.synapse.dt:\n            return self.synapse.current_at(self.selector)"),
    ("conv_selector_kernel_transposed", "C06", 2000, "inferno/neural/connections/conv.py",
     "        return ein.rearrange(delays, \"f c h w -> 1 (c h w) 1 f\").expand(", "        return ein.rearrange(delays, \"f c h w -> 1 (c w h) 1 f\").expand("),
    ("direct_delayed_ignores_selector_batch", "C06", 2000, "inferno/neural/connections/linear.py",
     "            res = ein.rearrange(self.syncurrent, \"b n 1 -> b n\")", "            res = ein.rearrange(self.syncurrent, \"b n 1 -> b n\")[:1].expand(res.shape[0], -1)"),
    ("synspike_uses_current_selector_floor", "C06", 2000, "inferno/neural/base.py",
     "            return self.synapse.spike_at(self.selector)", "            return self.synapse.spike_at(self.selector.floor())"),
    ("stdp_hebbian_routing_swapped", "C08", 800, "inferno/learn/trainers/two_factor_stdp.py",
     "                case (True, False):  # hebbian\n                    cell.updater.weight = (dpost, dpre)", "                case (True, False):  # hebbian\n                    cell.updater.weight = (dpre, dpost)", 0),
    ("stdp_trace_pre_wrong_tc", "C08", 800, "inferno/learn/trainers/two_factor_stdp.py",
     "                    state.tc_pre,\n                    amplitude=abs(state.lr_post),", "                    state.tc_post,\n                    amplitude=abs(state.lr_post),", 0),
    ("stdp_delayed_view_uses_peek", "C08", 800, "inferno/learn/trainers/two_factor_stdp.py",
     "                if state.delayed and cell.connection.delayedby\n                else monitors[\"spike_pre\"].peek()", "                if state.delayed and cell.connection.delayedby and False\n                else monitors[\"spike_pre\"].peek()", 0),
    ("triplet_slow_trace_same_step", "C08", 800, "inferno/learn/trainers/two_factor_stdp.py",
     "            y_b = monitors[\"trace_post_slow\"].reducer.data_.read(2)", "            y_b = monitors[\"trace_post_slow\"].reducer.data_.read(1)", 0),
    ("mstdpet_eligibility_not_scaled", "C08", 800, "inferno/learn/trainers/three_factor_stdp.py",
     "        self.scale = 1 / self.time_constant", "        self.scale = 1.0"),
    ("mstdp_tensor_signal_sign_ignored", "C08", 800, "inferno/learn/trainers/three_factor_stdp.py",
     "                signal_neg = torch.argwhere(signal < 0).view(-1)", "                signal_neg = torch.argwhere(signal < -0.3).view(-1)", 1),
    ("stdp_batchreduce_always_mean", "C08", 800, "inferno/learn/trainers/two_factor_stdp.py",
     "            dpost = state.batchreduce(\n                ein.einsum(i_post, x_pre, \"b ... r, b ... r -> b ...\"), 0\n            )", "            dpost = torch.mean(\n                ein.einsum(i_post, x_pre, \"b ... r, b ... r -> b ...\"), 0\n            )", 0),
    ("stdp_depressive_drops_pre", "C09", 800, "inferno/learn/trainers/two_factor_stdp.py",
     "                case (False, False):  # depressive\n                    cell.updater.weight = (None, dpost + dpre)", "                case (False, False):  # depressive\n                    cell.updater.weight = (None, dpost - dpre)", 0),
    ("kernel_split_unclamped", "C09", 800, "inferno/learn/trainers/kernel_stdp.py",
     "                state.batchreduce(dpost.clamp_min(0.0).nansum(dim=-1), 0)\n                + state.batchreduce(dpre.clamp_min(0.0).nansum(dim=-1), 0),", "                state.batchreduce(dpost.nansum(dim=-1), 0)\n                + state.batchreduce(dpre.clamp_min(0.0).nansum(dim=-1), 0),", 0),
    ("dastdp_routing_anti_swapped", "C09", 800, "inferno/learn/trainers/delay_adj_two_factor_stdp.py",
     "                case (False, True):  # anti-hebbian\n                    cell.updater.weight = (dneg, dpos)", "                case (False, True):  # anti-hebbian\n                    cell.updater.weight = (dpos, dneg)"),
    ("dastdp_tdelta_sign", "C18", 800, "inferno/learn/trainers/delay_adj_two_factor_stdp.py",
     "            t_delta = t_pre - t_post - cell.connection.delay.unsqueeze(-1)", "            t_delta = t_pre - t_post + cell.connection.delay.unsqueeze(-1)", 0),
    ("dastdpd_branch_inclusive", "C18", 800, "inferno/learn/trainers/delay_adj_two_factor_stdp.py",
     "(abs(state.lr_pos) * (t_delta < 0).to(dtype=t_delta_abs.dtype))", "(abs(state.lr_pos) * (t_delta <= 0).to(dtype=t_delta_abs.dtype))"),
    ("event_reducer_counts_from_dt", "C18", 800, "inferno/observe/reducers/general.py",
     "            return torch.where(self.criterion(obs), 0, state + self.dt).to(", "            return torch.where(self.criterion(obs), 0, state + 1.0).to("),
    ("kernel_pre_uses_post_kwargs", "C18", 800, "inferno/learn/trainers/kernel_stdp.py",
     "            dpre = state.kernel_pre(\n                t_delta,\n                **(\n                    state.kernel_pre_kwargs", "            dpre = state.kernel_pre(\n                t_delta,\n                **(\n                    state.kernel_post_kwargs", 1),
    ("recurrent_clear_keeps_feedback", "C17", 1500, "inferno/neural/network.py",
     "        if clear_feedback:\n            self.feedback_spikes = None", "        if clear_feedback and self.training:\n            self.feedback_spikes = None"),
    ("recurrent_feedback_same_step", "C17", 1500, "inferno/neural/network.py",
     "        # update recurrent spikes\n        self.feedback_spikes = self.get_neuron(self.__feedback_neuron_name).spike", "        # update recurrent spikes\n        self.feedback_spikes = self.get_neuron(self.__feedfwd_neuron_name).spike if self.get_neuron(self.__feedfwd_neuron_name).spike.shape == self.get_neuron(self.__feedback_neuron_name).spike.shape else self.get_neuron(self.__feedback_neuron_name).spike"),
    ("biclique_post_input_shared", "C17", 1500, "inferno/neural/network.py",
     "                    {k: self.post_input[k](v) for k, v in inputs.items()}, **kwargs", "                    {k: self.post_input[next(iter(inputs))](v) for k, v in inputs.items()}, **kwargs"),
    ("connection_clear_skips_synapse_when_no_updater", "C17", 1500, "inferno/neural/base.py",
     "        Updatable.clear(self, **kwargs)\n        self.synapse.clear(**kwargs)", "        Updatable.clear(self, **kwargs)\n        if self.updatable or self.delayedby is None:\n            self.synapse.clear(**kwargs)"),
    ("serial_capture_returns_transformed", "C17", 1500, "inferno/neural/network.py",
     "            return (outputs, res)", "            return (outputs, self.wiring(res, **kwargs) if len(res) == 1 and len(outputs) == 1 and 'serial' in res else res)"),
    ("ckpt_pointer_not_extra", "C12", 80, "inferno/core/infrastructure.py",
     "        if isinstance(owner, Module):\n            owner.register_extra(self.__attributes.pointer, 0)\n        else:\n            setattr(owner, self.__attributes.pointer, 0)", "        setattr(owner, self.__attributes.pointer, 0)"),
    ("ckpt_fold_initial_not_extra", "C12", 80, "inferno/observe/reducers/base.py",
     "        self.register_extra(\"_initial\", True)", "        self._initial = True"),
    ("ckpt_ca_count_not_extra", "C12", 120, "inferno/observe/reducers/stats.py",
     "        self.register_extra(\"_count\", 0)", "        self._count = 0"),
    ("ckpt_classifier_no_postload", "C12", 120, "inferno/learn/classifiers/simple.py",
     "        self.register_load_state_dict_post_hook(sdhook)", "        pass"),
    ("ckpt_feedback_spikes_nonpersistent", "C12", 120, "inferno/neural/network.py",
     "        self.register_buffer(\"feedback_spikes\", None)", "        self.register_buffer(\"feedback_spikes\", None, persistent=False)"),
    ("ckpt_adaptation_nonpersistent", "C12", 120, "inferno/neural/neurons/mixins.py",
     "        self.register_buffer(\"current_adaptation_\", data)", "        self.register_buffer(\"current_adaptation_\", data, persistent=False)"),
    ("ckpt_set_extra_state_skips_falsy", "C12", 120, "inferno/core/infrastructure.py",
     "        self._extras.update(state)", "        self._extras.update({k: v for k, v in state.items() if v or k not in self._extras})"),
    ("batch_refrac_reset_coupled", "C11", 1500, "inferno/neural/functional/neuron_dynamics.py",
     "    refracs = refracs.where(~spikes, refrac_t)\n    voltages = voltages.where(~spikes, reset_v)", "    refracs = refracs.where(~(spikes & spikes.all(0, keepdim=True) | spikes & (spikes.sum(0, keepdim=True) == 1)), refrac_t) if spikes.shape[0] > 2 else refracs.where(~spikes, refrac_t)\n    voltages = voltages.where(~spikes, reset_v)"),
    ("batch_synapse_overbound_any", "C11", 1500, "inferno/neural/synapses/mixins.py",
     "            (selector - bounded_selector).abs() <= tolerance, res, overbound", "            ((selector - bounded_selector).abs() <= tolerance).all(0, keepdim=True).expand_as(selector), res, overbound"),
    ("batch_direct_bias_mean", "C11", 1500, "inferno/neural/connections/linear.py",
     "            res = res * self.weight + self.bias\n", "            res = res * self.weight + self.bias * (1 + 0.01 * (res.mean(0, keepdim=True) > 0))\n"),
    ("batch_recurrent_feedback_shared", "C11", 1500, "inferno/neural/network.py",
     "        # update recurrent spikes\n        self.feedback_spikes = self.get_neuron(self.__feedback_neuron_name).spike", "        # update recurrent spikes\n        self.feedback_spikes = self.get_neuron(self.__feedback_neuron_name).spike.roll(1, 0)"),
    ("batch_eventreducer_first_row", "C11", 1500, "inferno/observe/reducers/general.py",
     "            return torch.where(self.criterion(obs), 0, state + self.dt).to(", "            return torch.where(self.criterion(obs)[:1].expand_as(obs) | self.criterion(obs), 0, state + self.dt).to("),
    ("trainer_eval_keeps_monitors", "C15", 1500, "inferno/learn/base.py",
     "        else:\n            for monitor in self.monitor_pool_.monitors:\n                monitor.deregister()", "        else:\n            for monitor in list(self.monitor_pool_.monitors)[1:]:\n                monitor.deregister()"),
    ("pool_alias_ignores_tags", "C15", 1500, "inferno/observe/pooling.py",
     "            if hasattr(monitors[name], \"_tags\") and monitors[name]._tags == tags:", "            if hasattr(monitors[name], \"_tags\"):"),
    ("pool_add_monitor_eval_stays_registered", "C15", 1500, "inferno/observe/pooling.py",
     "        if not self.training:\n            monitor.deregister()", "        pass"),
    ("trainer_train_registers_only_unregistered_first", "C15", 1500, "inferno/learn/base.py",
     "        if mode:\n            for monitor in self.monitor_pool_.monitors:\n                monitor.register()", "        if mode:\n            for monitor in self.monitor_pool_.monitors:\n                if not monitor.registered:\n                    monitor.register()\n                    break"),
    ("monitor_register_again_double", "C15", 1500, "inferno/observe/monitors.py",
     "        elif not self.registered:\n            # try to get the referenced module", "        else:\n            # try to get the referenced module"),
    ("cfg_batchsz_setter_skips_one", "C14", 2000, "inferno/neural/mixins.py",
     "            for cstr in self.__constrained:\n                getattr(self, cstr).reconstrain(0, value)", "            for cstr in sorted(self.__constrained)[1:] or sorted(self.__constrained):\n                getattr(self, cstr).reconstrain(0, value)"),
    ("cfg_dt_setter_not_propagated", "C14", 2000, "inferno/neural/mixins.py",
     "            for cstr in self.__constrained:\n                getattr(self, cstr).dt = value\n            self.__step_time = value", "            self.__step_time = value"),
    ("cfg_reducer_dt_keeps_decay", "C14", 2000, "inferno/observe/reducers/trace.py",
     "        FoldReducer.dt.fset(self, value)\n        self.decay = exp(-self.dt / self.time_constant)", "        FoldReducer.dt.fset(self, value)", 0),
    ("cfg_synapse_delay_setter_old_formula", "C14", 2000, "inferno/neural/mixins.py",
     "                getattr(self, cstr).duration = value\n            self.__delay = value", "                getattr(self, cstr).duration = value + self.__step_time\n            self.__delay = value"),
    ("cfg_reducer_inplace_setter_inverted_when_true", "C14", 2000, "inferno/observe/reducers/base.py",
     "        self.__inplace = bool(value)\n\n\nclass FoldReducer", "        self.__inplace = bool(value) and self.__duration > 0\n\n\nclass FoldReducer"),
    ("conv_presyn_receptive_wrong_order", "C05", 3000, "inferno/neural/connections/conv.py",
     "\"b (c kh kw) l ... -> b (...) c kh kw l\",", "\"b (kh c kw) l ... -> b (...) c kh kw l\","),
    ("dense_postsyn_receptive_flat_last", "C05", 3000, "inferno/neural/connections/linear.py",
     "        return ein.rearrange(data, \"b ... -> b (...) 1 1\")", "        return ein.rearrange(data.flip(-1), \"b ... -> b (...) 1 1\")", 0),
    ("resize_keeps_head", "C13", 3000, INFRA,
     "            slices[dim] = slice(tensor.shape[dim] - size, None)\n            return tensor[*slices]", "            slices[dim] = slice(None, size)\n            return tensor[*slices]"),
    ("resize_no_align", "C13", 3000, INFRA,
     "        # recompute size of the history dimension\n        size = max(math.ceil(self.__duration / self.__dt) + self.__inclusive, 1)\n\n        # reconstrain if required\n        if size != self.__recordsz:\n            with torch.no_grad():\n                if not self._ignore(self.__data):\n                    self.align(0)\n                _ = ShapedTensor.reconstrain(self, 0, size)\n\n    @property\n    def duration",
     "        # recompute size of the history dimension\n        size = max(math.ceil(self.__duration / self.__dt) + self.__inclusive, 1)\n\n        # reconstrain if required\n        if size != self.__recordsz:\n            with torch.no_grad():\n                _ = ShapedTensor.reconstrain(self, 0, size)\n\n    @property\n    def duration"),
    ("resize_floor_formula", "C13", 3000, INFRA,
     "        # assign updated duration\n        setattr(self.__owner(), self.__attributes.duration, value)\n\n        # recompute size of the history dimension\n        size = max(math.ceil(self.__duration / self.__dt) + self.__inclusive, 1)",
     "        # assign updated duration\n        setattr(self.__owner(), self.__attributes.duration, value)\n\n        # recompute size of the history dimension\n        size = max(math.floor(self.__duration / self.__dt) + 1, 1)"),
]


def run_one(m):
    mid, prop, runs, rel, old, new = m[:6]
    nth = m[6] if len(m) > 6 else None     # optional: replace only the nth (0-based) occurrence of a repeated snippet
    scratch = tempfile.mkdtemp(prefix="inferno-mut-", dir="/var/tmp")
    try:
        subprocess.run(["rsync", "-a", "--exclude", ".git", "--exclude", "__pycache__", "/repo/", scratch + "/"], check=True)
        p = os.path.join(scratch, rel)
        s = open(p).read()
        if nth is None:
            if s.count(old) != 1:
                return mid, prop, "PATCH-DOES-NOT-APPLY (%d matches)" % s.count(old)
            s = s.replace(old, new)
        else:
            parts = s.split(old)
            if len(parts) - 1 <= nth:
                return mid, prop, "PATCH-DOES-NOT-APPLY (%d matches)" % (len(parts) - 1)
            s = old.join(parts[: nth + 1]) + new + old.join(parts[nth + 1:])
        open(p, "w").write(s)
        env = dict(os.environ, VERIF_REPO=scratch, VERIF_EVIDENCE_DIR=os.path.join(scratch, "_evidence"))
        r = subprocess.run([os.path.join(V, "check"), prop, "--runs", str(runs), "--wall", "120"], env=env,
                           capture_output=True, text=True, timeout=900)
        viol = [l for l in r.stdout.splitlines() if l.startswith("VIOLATION")]
        oracles = [l.strip().split()[0] for l in r.stdout.splitlines() if l.strip().startswith("oracle=")]
        status = "CAUGHT" if r.returncode == 1 and viol else f"MISSED (exit {r.returncode})"
        return mid, prop, status + " " + ",".join(oracles)
    finally:
        shutil.rmtree(scratch, ignore_errors=True)


if __name__ == "__main__":
    want = set(sys.argv[1:])
    ms = [m for m in MUTANTS if not want or m[0] in want or m[1] in want]
    from concurrent.futures import ThreadPoolExecutor
    bad = 0
    with ThreadPoolExecutor(max_workers=int(os.environ.get("MUT_PAR", "3"))) as ex:
        for mid, prop, status in ex.map(run_one, ms):
            print(f"{prop} {mid:40s} {status}", flush=True)
            bad += not status.startswith("CAUGHT")
    sys.exit(1 if bad else 0)
