"""Determinism self-test: every registered property, N run indices, executed in two fresh interpreters
(PYTHONHASHSEED 0 and 4242); the per-run event-log digests must be identical.  Also runs the same
batch with 1 and with many workers and compares the aggregate (distinct digests, states, steps).

usage: /venv/bin/python selftest/determinism.py [runs] [props...]
"""
import json, os, subprocess, sys
from concurrent.futures import ThreadPoolExecutor

V = os.path.dirname(os.path.dirname(os.path.abspath(__file__)))
sys.path.insert(0, V)
from sim.registry import PROPS

runs = int(sys.argv[1]) if len(sys.argv) > 1 else 150
props = sys.argv[2:] or sorted(PROPS)


def digests(prop, hashseed, seed):
    env = dict(os.environ, VERIF_HASHSEED=str(hashseed), VERIF_SEED=str(seed))
    r = subprocess.run([os.path.join(V, "check"), prop, "--digest", "--runs", str(runs)], env=env,
                       capture_output=True, text=True, timeout=3000)
    return [l for l in r.stdout.splitlines() if l.startswith("DIGEST")], r.returncode, r.stderr[-500:]


def one(prop):
    out = []
    for seed in (0, 7):
        a, rca, ea = digests(prop, 0, seed)
        b, rcb, eb = digests(prop, 4242, seed)
        ok = a == b and len(a) == runs and rca == 0 and rcb == 0
        nd = sum(1 for x, y in zip(a, b) if x != y)
        out.append((prop, seed, ok, len(a), nd, (ea or eb) if not ok else ""))
    return out


bad = 0
with ThreadPoolExecutor(max_workers=8) as ex:
    for res in ex.map(one, props):
        for prop, seed, ok, n, nd, err in res:
            print(f"{prop} VERIF_SEED={seed} runs={n} differing={nd} {'OK' if ok else 'NONDETERMINISTIC ' + err}", flush=True)
            bad += not ok
sys.exit(1 if bad else 0)
